#!/bin/sh
# Offline setup: build the engine and warm the go build cache for /repo (export data is needed by go/packages).
set -e
cd "$(dirname "$0")"
export GOFLAGS=-mod=mod GOPROXY=off GOSUMDB=off GOTOOLCHAIN=local
mkdir -p bin
(cd gosym && go build -o ../bin/gosym .)
(cd /repo && go build ./... && go test -vet=off -count=1 -run '^$' ./x/... ./app/... ./pkg/... >/dev/null 2>&1 || true)
echo setup ok
