#!/bin/bash
# usage: bentest.sh <property-id> <worktree> [check ids...]
# A behaviour-preserving change (refactoring) written by a sub-agent in its own worktree: confirms
# it builds and the repository's tests pass, stores it under /verif/seeded/benign_<id>/ and runs
# the given checks against the patched worktree. Every check must answer HELD (no false alarm).
set -u
export GOFLAGS=-mod=mod GOPROXY=off GOSUMDB=off GOTOOLCHAIN=local
ID=$1; WT=$2; shift 2; CHECKS=${@:-$ID}
NAME=${SEED_NAME:-benign_$ID}
OUT=/verif/seeded/$NAME; mkdir -p $OUT
cp $WT/zz_out/patch.diff $OUT/patch.diff
cp $WT/zz_out/notes.md $OUT/notes.md 2>/dev/null
cd $WT
git checkout -q -- . ; git apply zz_out/patch.diff || { echo "PATCH DOES NOT APPLY"; exit 1; }
B=$(go build ./... 2>&1 | tail -3); echo "build: ${B:-ok}"
T=$(go test -vet=off -count=1 ./x/... ./pkg/... ./app/... 2>&1 | grep -v "^ok\|no test files" | tail -5); echo "tests with patch: ${T:-all ok}"
SCR=/tmp/seedout_$NAME; rm -rf $SCR; mkdir -p $SCR
RES=""
for c in $CHECKS; do
  R=$(cd /verif && VERIF_REPO=$WT VERIF_OUT=$SCR ./check $c quick 2>&1 | grep -v "^\[" | grep "^VIOLATION\|^HELD\|^VIOLATED\|^INCONCLUSIVE\|^KNOWN" | tail -3 | tr '\n' ' ')
  echo "check $c: $R"; RES="$RES $c: $R |"
done
rm -rf $SCR
python3 - "$NAME" "$ID" "${B:-ok}" "${T:-all ok}" "$RES" <<'PY'
import json,sys
name,pid,b,t,res=sys.argv[1:6]
json.dump({"property":pid,"name":name,"kind":"behaviour-preserving change; every check must answer HELD","confirmed":{"build":b,"tests_with_patch":t},"checks_run":res.strip()},open(f'/verif/seeded/{name}/meta.json','w'),indent=1)
PY
