#!/bin/sh
# runs every thorough check sequentially (each capped), prints one line per property
cd "$(dirname "$0")"
./setup.sh >/dev/null 2>&1
IDS=${@:-C04 C20 C10 C06 C17 C16 C15 C18 C12 C07 C14 C11 C09 C02 C03 C05 C08 C13 C01 C19}
for id in $IDS; do
  start=$(date +%s)
  out=$(timeout 7200 ./check $id thorough 2>&1 | grep -v "^\[" | grep "^HELD\|^VIOLATED\|^INCONCLUSIVE\|^VIOLATION\|^KNOWN" | tail -4 | tr '\n' ' ')
  echo "$id $(( $(date +%s) - start ))s: ${out:-TIMEOUT-or-no-output}"
done
