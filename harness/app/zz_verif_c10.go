package app

import (
	"context"
	"errors"
	"strings"

	txsigning "cosmossdk.io/x/tx/signing"
	cryptotypes "github.com/cosmos/cosmos-sdk/crypto/types"
	sdk "github.com/cosmos/cosmos-sdk/types"
	signingtypes "github.com/cosmos/cosmos-sdk/types/tx/signing"
	"github.com/ethereum/go-ethereum/core/types/goattypes"
	relayer "github.com/goatnetwork/goat/x/relayer/types"
	"github.com/goatnetwork/goat/zzverif/vrt"
	protov2 "google.golang.org/protobuf/proto"
	"google.golang.org/protobuf/reflect/protoreflect"
)

// ---- a transaction whose every observable is the harness' choice ----

type vhDesc struct {
	protoreflect.MessageDescriptor
	name string
}

func (d vhDesc) FullName() protoreflect.FullName { return protoreflect.FullName(d.name) }

type vhReflect struct {
	protoreflect.Message
	name string
}

func (r vhReflect) Descriptor() protoreflect.MessageDescriptor { return vhDesc{name: r.name} }

type vhMsg struct{ name string }

func (m vhMsg) ProtoReflect() protoreflect.Message { return vhReflect{name: m.name} }

type vhStdTx struct {
	memo       string
	signers    [][]byte
	signersErr bool
	timeout    uint64
	msgs       []protov2.Message
	msgsErr    bool
}

func (t vhStdTx) GetMsgs() []sdk.Msg { return nil }
func (t vhStdTx) GetMsgsV2() ([]protov2.Message, error) {
	if t.msgsErr {
		return nil, errors.New("vh: no v2 messages")
	}
	return t.msgs, nil
}
func (t vhStdTx) GetMemo() string          { return t.memo }
func (t vhStdTx) GetTimeoutHeight() uint64 { return t.timeout }
func (t vhStdTx) GetSigners() ([][]byte, error) {
	if t.signersErr {
		return nil, errors.New("vh: no signers")
	}
	return t.signers, nil
}
func (t vhStdTx) GetPubKeys() ([]cryptotypes.PubKey, error)            { return nil, nil }
func (t vhStdTx) GetSignaturesV2() ([]signingtypes.SignatureV2, error) { return nil, nil }

type vhNotStdTx struct{}

func (vhNotStdTx) GetMsgs() []sdk.Msg                    { return nil }
func (vhNotStdTx) GetMsgsV2() ([]protov2.Message, error) { return nil, nil }

type vhProposerKeeper struct {
	proposer []byte
	fail     bool
}

func (k vhProposerKeeper) GetCurrentProposer(ctx context.Context) (sdk.AccAddress, error) {
	if k.fail {
		return nil, errors.New("vh: no relayer")
	}
	return k.proposer, nil
}
func (k vhProposerKeeper) ProcessRelayerRequest(ctx context.Context, req goattypes.RelayerRequests) error {
	return nil
}
func (k vhProposerKeeper) VerifyProposal(ctx context.Context, req relayer.IVoteMsg, verifyFn ...func(sigdoc []byte) error) (uint64, error) {
	return 0, nil
}
func (k vhProposerKeeper) VerifyNonProposal(ctx context.Context, req relayer.INonVoteMsg) (relayer.IRelayer, error) {
	return nil, nil
}
func (k vhProposerKeeper) UpdateRandao(ctx context.Context, req relayer.IVoteMsg) error { return nil }
func (k vhProposerKeeper) HasPubkey(ctx context.Context, raw []byte) (bool, error)      { return false, nil }
func (k vhProposerKeeper) AddNewKey(ctx context.Context, raw []byte) error              { return nil }
func (k vhProposerKeeper) SetProposalSeq(ctx context.Context, seq uint64) error         { return nil }

var _ = txsigning.HandlerMap{}

const vhBlockMsgName = "goat.goat.v1.MsgNewEthBlock"

// VH_C10_guard: the guard lets a transaction through (in the check / recheck / prepare /
// process / finalize modes) only if it has no memo, exactly one signer, an unexpired timeout,
// and every message is either a goat.bitcoin.* / goat.relayer.* message signed by the
// current relayer proposer, or - in process/finalize mode only - the block message with
// timeout height = current height. Message names are ARBITRARY strings, so the result
// covers every message type any registry could hold (bank, auth, consensus-params, ...).
func VH_C10_guard(h *vrt.H) {
	proposer := h.Bytes("relayerProposer", 20)
	rk := vhProposerKeeper{proposer: proposer, fail: h.Choose("noRelayerState", 0, 1) == 1}
	guard := GoatGuardHandler{relayerKeeper: rk}
	mode := []sdk.ExecMode{sdk.ExecModeCheck, sdk.ExecModeReCheck, sdk.ExecModePrepareProposal, sdk.ExecModeProcessProposal, sdk.ExecModeFinalize}[h.Choose("mode", 0, 4)]
	height := int64(h.U64("height") >> 1)
	ctx := h.Ctx().WithExecMode(mode).WithBlockHeight(height)
	tx := vhStdTx{memo: h.Str("memo", h.Choose("memoLen", 0, 2)), timeout: h.U64("timeoutHeight"), signersErr: h.Choose("signersErr", 0, 1) == 1, msgsErr: h.Choose("msgsErr", 0, 1) == 1}
	nSigners := h.Choose("nSigners", 0, 2)
	for i := 0; i < nSigners; i++ {
		tx.signers = append(tx.signers, h.Bytes(h.Name("signer", i), 20))
	}
	maxMsgs, lens := 2, []int{5, 13, 20, 27, 30}
	if h.Thorough() {
		maxMsgs, lens = 3, []int{0, 5, 12, 13, 14, 20, 26, 27, 28, 40}
	}
	nMsgs := h.Choose("nMsgs", 0, maxMsgs)
	names := make([]string, nMsgs)
	for i := 0; i < nMsgs; i++ {
		names[i] = h.Str(h.Name("msgName", i), lens[h.Choose(h.Name("msgNameLen", i), 0, len(lens)-1)])
		tx.msgs = append(tx.msgs, vhMsg{name: names[i]})
	}
	var sdkTx sdk.Tx = tx
	notStd := h.Choose("notAStdTx", 0, 1) == 1
	if notStd {
		sdkTx = vhNotStdTx{}
	}
	reached := false
	_, err := guard.AnteHandle(ctx, sdkTx, false, func(c sdk.Context, t sdk.Tx, sim bool) (sdk.Context, error) {
		reached = true
		return c, nil
	})
	h.NoteBool("passed", reached)
	h.Assert(reached == (err == nil), "guard-errors-iff-it-stops-the-transaction")
	if !reached {
		h.Reach("stopped")
		return
	}
	h.Assert(!notStd && !tx.signersErr && !tx.msgsErr && !rk.fail, "malformed-transactions-are-stopped")
	h.Assert(len(tx.memo) == 0, "no-memo")
	h.Assert(nSigners == 1, "exactly-one-signer")
	h.Assert(tx.timeout == 0 || uint64(height) <= tx.timeout, "timeout-not-expired")
	inBlock := mode == sdk.ExecModeProcessProposal || mode == sdk.ExecModeFinalize
	for i := 0; i < nMsgs; i++ {
		relayerMsg := strings.HasPrefix(names[i], "goat.bitcoin.") || strings.HasPrefix(names[i], "goat.relayer.")
		bySigner := nSigners == 1 && string(tx.signers[0]) == string(proposer)
		blockMsg := names[i] == vhBlockMsgName
		h.Assert(h.Either(h.Both(relayerMsg, bySigner), h.Both(blockMsg, h.Both(inBlock, tx.timeout == uint64(height)))), "only-proposer-relayer-messages-or-the-block-message")
		if !inBlock {
			h.Assert(!blockMsg, "block-message-refused-outside-block-execution")
		}
	}
	h.Reach("passed")
}
