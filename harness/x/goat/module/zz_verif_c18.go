package goat

import (
	"bytes"

	"github.com/goatnetwork/goat/x/goat/keeper"
	"github.com/goatnetwork/goat/x/goat/types"
	"github.com/goatnetwork/goat/zzverif/vrt"
)

func vhMust(err error) {
	if err != nil {
		panic("vh: harness state construction failed: " + err.Error())
	}
}

// VH_C18_goat: the goat module's state is the recorded execution head and the beacon root.
// Export of any such state validates and re-imports without panic into an equal state.
func VH_C18_goat(h *vrt.H) {
	ka := keeper.NewKeeper(h.Codec(), h.AddressCodec(), h.StoreService("goatA"), h.Logger(), nil, nil, nil, nil, nil)
	kb := keeper.NewKeeper(h.Codec(), h.AddressCodec(), h.StoreService("goatB"), h.Logger(), nil, nil, nil, nil, nil)
	ctx := h.Ctx()
	// the head is whatever payload the last accepted block message carried
	head := types.ExecutionPayload{
		ParentHash: h.Bytes("parentHash", 32), FeeRecipient: h.Bytes("feeRecipient", 20), StateRoot: h.Bytes("stateRoot", 32), ReceiptsRoot: h.Bytes("receiptsRoot", 32),
		LogsBloom: make([]byte, 256), PrevRandao: h.Bytes("prevRandao", 32), BlockNumber: h.U64("number"), GasLimit: h.U64("gasLimit"), GasUsed: h.U64("gasUsed"),
		Timestamp: h.U64("timestamp"), ExtraData: h.Bytes("extra", 33), BaseFeePerGas: h.Int("baseFee", "0", "340282366920938463463374607431768211455"),
		BlockHash: h.Bytes("blockHash", 32), BeaconRoot: h.Bytes("payloadBeaconRoot", 32), BlobGasUsed: 0, ExcessBlobGas: h.U64("excessBlobGas"),
		Requests: [][]byte{append([]byte{0}, h.Bytes("gasRevenue", 40)...)},
	}
	switch h.Choose("transactions", 0, 2) {
	case 1:
		head.Transactions = [][]byte{h.Bytes("tx0", 10)}
	case 2:
		head.Transactions = [][]byte{h.Bytes("tx0", 10), h.Bytes("tx1", 7)}
	}
	beacon := h.Bytes("beaconRoot", 32)
	vhMust(ka.Params.Set(ctx, types.Params{}))
	vhMust(ka.Block.Set(ctx, head))
	vhMust(ka.BeaconRoot.Set(ctx, beacon))
	var g *types.GenesisState
	if h.Panics(func() { g = ExportGenesis(ctx, ka) }) {
		h.Assert(false, "export-never-panics")
		return
	}
	h.Assert(g.Validate() == nil, "exported-state-validates")
	if h.Panics(func() { InitGenesis(ctx, kb, *g) }) {
		h.Assert(false, "exported-state-re-imports-without-panic")
		return
	}
	post, err := kb.Block.Get(ctx)
	vhMust(err)
	root, rerr := kb.BeaconRoot.Get(ctx)
	vhMust(rerr)
	same := bytes.Equal(post.BlockHash, head.BlockHash) && bytes.Equal(post.ParentHash, head.ParentHash) && post.BlockNumber == head.BlockNumber &&
		bytes.Equal(post.FeeRecipient, head.FeeRecipient) && bytes.Equal(post.StateRoot, head.StateRoot) && bytes.Equal(post.ReceiptsRoot, head.ReceiptsRoot) &&
		bytes.Equal(post.PrevRandao, head.PrevRandao) && post.GasLimit == head.GasLimit && post.GasUsed == head.GasUsed && post.Timestamp == head.Timestamp &&
		bytes.Equal(post.ExtraData, head.ExtraData) && post.BaseFeePerGas.Equal(head.BaseFeePerGas) && bytes.Equal(post.BeaconRoot, head.BeaconRoot) &&
		post.ExcessBlobGas == head.ExcessBlobGas && len(post.Transactions) == len(head.Transactions) && len(post.Requests) == 1 && bytes.Equal(post.Requests[0], head.Requests[0])
	h.Assert(same, "head-restored")
	for i := range head.Transactions {
		if i < len(post.Transactions) {
			h.Assert(bytes.Equal(post.Transactions[i], head.Transactions[i]), "head-transactions-restored")
		}
	}
	h.Assert(bytes.Equal(root, beacon), "beacon-root-restored")
	h.Reach("end")
}
