package keeper

import (
	"github.com/ethereum/go-ethereum/core/types/goattypes"
	"github.com/goatnetwork/goat/zzverif/vrt"
)

// record sizes (bytes after the type byte) of the typed execution-layer requests
var vhReqSizes = map[byte]int{0: 40, 1: 84, 2: 72, 3: 80, 4: 48, 5: 32, 6: 28, 7: 52, 11: 0, 12: 16, 13: 8, 14: 16, 15: 8, 16: 8, 20: 52, 21: 20}

// VH_C19_decode_requests: decoding an arbitrary execution-layer request list never panics
// (it runs in the unrecovered proposal-verification goroutine): one or two entries with any
// type byte and every length in {0, 1, s-1, s, s+1, 2s} around the type's record size s
// (a short tail is zero-padded by the single Read, so these lengths represent all others).
func VH_C19_decode_requests(h *vrt.H) {
	n := h.Choose("nEntries", 0, 2)
	var reqs [][]byte
	for i := 0; i < n; i++ {
		t := byte(h.Choose(h.Name("type", i), 0, 23))
		s, known := vhReqSizes[t]
		if !known {
			s = 8
		}
		ln := []int{0, 1, s - 1, s, s + 1, 2 * s}[h.Choose(h.Name("lenKind", i), 0, 5)]
		if ln < 0 {
			ln = 0
		}
		if h.Choose(h.Name("emptyEntry", i), 0, 1) == 1 {
			reqs = append(reqs, nil)
			continue
		}
		reqs = append(reqs, append([]byte{t}, h.Bytes(h.Name("body", i), ln)...))
	}
	var err error
	panicked := h.Panics(func() { _, _, _, err = goattypes.DecodeRequests(reqs) })
	h.Assert(!panicked, "decoding-requests-never-panics")
	h.NoteBool("decoded", err == nil)
	h.Reach("end")
}
