package keeper

import (
	"bytes"
	"context"
	"time"

	abci "github.com/cometbft/cometbft/abci/types"
	sdk "github.com/cosmos/cosmos-sdk/types"
	"github.com/ethereum/go-ethereum/beacon/engine"
	"github.com/ethereum/go-ethereum/common"
	"github.com/ethereum/go-ethereum/params"
	"github.com/goatnetwork/goat/x/goat/types"
	"github.com/goatnetwork/goat/zzverif/vrt"
	protov2 "google.golang.org/protobuf/proto"
)

// ---- engine client stub: arbitrary answers, every call logged ----

type vhEngine struct {
	newPayloadErr    bool
	newPayloadStatus string
	forkErr          bool
	forkStatus       string
	calls            []string
	lastPayload      *engine.ExecutableData
	lastBeaconRoot   common.Hash
	lastRequests     [][]byte
	lastFork         *engine.ForkchoiceStateV1
	forkAttrsNil     bool
}

func (e *vhEngine) ForkchoiceUpdatedV3(ctx context.Context, update *engine.ForkchoiceStateV1, attrs *engine.PayloadAttributes) (engine.ForkChoiceResponse, error) {
	e.calls = append(e.calls, "ForkchoiceUpdatedV3")
	e.lastFork, e.forkAttrsNil = update, attrs == nil
	if e.forkErr {
		return engine.ForkChoiceResponse{}, errVh
	}
	return engine.ForkChoiceResponse{PayloadStatus: engine.PayloadStatusV1{Status: e.forkStatus}}, nil
}
func (e *vhEngine) GetPayloadV4(ctx context.Context, id engine.PayloadID) (*engine.ExecutionPayloadEnvelope, error) {
	e.calls = append(e.calls, "GetPayloadV4")
	return nil, errVh
}
func (e *vhEngine) NewPayloadV4(ctx context.Context, p *engine.ExecutableData, versionedHashes []common.Hash, beaconRoot common.Hash, requests [][]byte) (*engine.PayloadStatusV1, error) {
	e.calls = append(e.calls, "NewPayloadV4")
	e.lastPayload, e.lastBeaconRoot, e.lastRequests = p, beaconRoot, requests
	if e.newPayloadErr {
		return nil, errVh
	}
	return &engine.PayloadStatusV1{Status: e.newPayloadStatus}, nil
}
func (e *vhEngine) ExchangeCapabilities(ctx context.Context, caps []string) ([]string, error) {
	return nil, nil
}
func (e *vhEngine) GetClientVersionV1(ctx context.Context, info engine.ClientVersionV1) ([]engine.ClientVersionV1, error) {
	return nil, nil
}
func (e *vhEngine) GetChainConfig(ctx context.Context) (*params.ChainConfig, error) { return nil, nil }

var vhStatuses = []string{engine.VALID, engine.INVALID, engine.SYNCING, engine.ACCEPTED}

// ---- comet info with a proposer address ----

type vhComet struct{ proposer []byte }

func (c vhComet) GetEvidence() cometEvidenceList { return nil }
func (c vhComet) GetValidatorsHash() []byte      { return nil }
func (c vhComet) GetProposerAddress() []byte     { return c.proposer }
func (c vhComet) GetLastCommit() cometCommitInfo { return nil }

// ---- transactions handed to ProcessProposal ----

type vhOtherMsg struct{}

func (*vhOtherMsg) Reset()         {}
func (*vhOtherMsg) String() string { return "vhOtherMsg" }
func (*vhOtherMsg) ProtoMessage()  {}

type vhTx struct{ msgs []sdk.Msg }

func (t vhTx) GetMsgs() []sdk.Msg                    { return t.msgs }
func (t vhTx) GetMsgsV2() ([]protov2.Message, error) { return nil, nil }

type vhVerifier struct {
	txs  map[string]sdk.Tx
	fail bool
}

func (v vhVerifier) PrepareProposalVerifyTx(tx sdk.Tx) ([]byte, error) { return nil, errVh }
func (v vhVerifier) ProcessProposalVerifyTx(raw []byte) (sdk.Tx, error) {
	if v.fail {
		return nil, errVh
	}
	t, ok := v.txs[string(raw)]
	if !ok {
		return nil, errVh
	}
	return t, nil
}
func (v vhVerifier) TxDecode(raw []byte) (sdk.Tx, error) { return v.ProcessProposalVerifyTx(raw) }
func (v vhVerifier) TxEncode(tx sdk.Tx) ([]byte, error)  { return nil, errVh }

// vhHead: the recorded execution head and an arbitrary proposed payload related to it in
// every way the harness chooses.
type vhProposal struct {
	head     types.ExecutionPayload
	beacon   []byte
	proposer []byte
	msg      *types.MsgNewEthBlock
	// what is true of the proposal by construction
	childOfHead, rightNumber, rightBeacon, rightProposer, rightRecipient, oneGas, dequeueOK, notFuture bool
	nilPayload                                                                                         bool
}

func vhBuildProposal(h *vrt.H, k Keeper, ctx sdk.Context, b *vhBitcoin, l *vhLocking) (*vhProposal, sdk.Context) {
	p := &vhProposal{}
	p.head = types.ExecutionPayload{BlockHash: h.Bytes("headHash", 32), BlockNumber: h.U64("headNumber"), ParentHash: h.Bytes("headParent", 32)}
	h.Assume(p.head.BlockNumber < 1<<62)
	p.beacon = h.Bytes("beaconRoot", 32)
	vhMust(k.Block.Set(ctx, p.head))
	vhMust(k.BeaconRoot.Set(ctx, p.beacon))
	p.proposer = h.Bytes("cometProposer", 20)
	ctx = ctx.WithCometInfo(vhComet{proposer: p.proposer})
	proposerStr, err := k.addressCodec.BytesToString(h.PickBytes(h.Bool("msgProposerIsCometProposer"), p.proposer, h.Bytes("otherProposer", 20)))
	vhMust(err)
	p.msg = &types.MsgNewEthBlock{Proposer: proposerStr}
	// one hash-like field of the payload a byte longer/shorter than it should be (every
	// content): explored against an otherwise well-shaped payload, so the shape choices
	// below are fixed in those cases (the cases add up instead of multiplying)
	odd := h.Choose("oddLengthField", 0, 4)
	choose := func(name string, lo, hi, wellShaped int) int {
		if odd != 0 {
			return wellShaped
		}
		return h.Choose(name, lo, hi)
	}
	if choose("nilPayload", 0, 1, 0) == 1 {
		p.nilPayload = true
		return p, ctx
	}
	// due system transactions (through the real builders) and the payload's leading transactions
	nb, nl := len(b.due), len(l.due)
	var txs [][]byte
	for _, tx := range append(append([]*ethTxT{}, b.due...), l.due...) {
		raw, merr := tx.MarshalBinary()
		vhMust(merr)
		txs = append(txs, raw)
	}
	p.dequeueOK = true
	if len(txs) > 0 && choose("dropLastDueTx", 0, 1, 0) == 1 {
		txs = txs[:len(txs)-1]
		p.dequeueOK = false
	}
	extra := make([]byte, 33)
	extra[0] = h.U8("announcedSystemTxs")
	switch choose("transactionsShape", 0, 2, 0) {
	case 0: // nil list (the normal decoding of an empty list)
		if len(txs) == 0 {
			txs = nil
		}
	case 1:
		if len(txs) == 0 {
			txs = [][]byte{}
		}
	case 2:
		txs = append(txs, h.Bytes("userTx", 12))
	}
	gasReq := []byte{0}                                   // GasRequestType
	gasReq = append(gasReq, h.Bytes("gasRevenue", 40)...) // height(8) + amount(32)
	var reqs [][]byte
	switch choose("gasRequests", 0, 2, 1) {
	case 1:
		reqs = [][]byte{gasReq}
	case 2:
		reqs = [][]byte{append(gasReq, h.Bytes("gasRevenue2", 40)...)}
	}
	// the payload's fields are the proposer's bytes: hash-like fields of the right length equal
	// to the recorded value or not
	beaconRoot := h.PickBytes(h.Bool("rightBeacon"), p.beacon, h.Bytes("otherBeacon", 32))
	parentHash := h.PickBytes(h.Bool("childOfHead"), p.head.BlockHash, h.Bytes("otherParent", 32))
	recipient := h.PickBytes(h.Bool("recipientIsProposer"), p.proposer, h.Bytes("otherRecipient", 20))
	switch odd {
	case 1:
		beaconRoot = h.Bytes("longBeacon", 33)
	case 2:
		beaconRoot = h.Bytes("shortBeacon", 31)
	case 3:
		parentHash = h.Bytes("longParent", 33)
	case 4:
		recipient = h.Bytes("longRecipient", 21)
	}
	pl := &types.ExecutionPayload{
		ParentHash:   parentHash,
		FeeRecipient: recipient,
		StateRoot:    make([]byte, 32), ReceiptsRoot: make([]byte, 32), LogsBloom: make([]byte, 256), PrevRandao: make([]byte, 32),
		BlockNumber:  h.U64("number"),
		Timestamp:    h.U64("timestamp"),
		ExtraData:    extra,
		BlockHash:    h.Bytes("blockHash", 32),
		Transactions: txs,
		BeaconRoot:   beaconRoot,
		BlobGasUsed:  uint64(choose("blobGasUsed", 0, 1, 0)),
		Requests:     reqs,
	}
	p.msg.Payload = pl
	p.childOfHead = bytes.Equal(pl.ParentHash, p.head.BlockHash)
	p.rightNumber = pl.BlockNumber == p.head.BlockNumber+1
	p.rightBeacon = bytes.Equal(pl.BeaconRoot, p.beacon)
	mp, _ := k.addressCodec.StringToBytes(proposerStr)
	p.rightProposer = bytes.Equal(mp, p.proposer)
	p.rightRecipient = bytes.Equal(mp, pl.FeeRecipient)
	p.oneGas = len(reqs) == 1 && len(reqs[0]) == 41
	p.dequeueOK = p.dequeueOK && int(extra[0]) == nb+nl
	return p, ctx
}

// VH_C08_verify_block: what the verifier's acceptance of a block message implies (every
// relation between the proposed payload and the recorded head, the due system transactions,
// the engine's answer), and that its two concurrent tasks do not race.
func VH_C08_verify_block(h *vrt.H) {
	nb := h.Choose("bridgeDue", 0, 1)
	nl := nb
	if h.Thorough() {
		nl = h.Choose("lockingDue", 0, 1)
	}
	b := &vhBitcoin{due: vhBridgeDue(h, nb, h.U64("bridgeNonce"))}
	l := &vhLocking{due: vhLockingDue(h, nl, h.U64("lockingNonce"))}
	es := h.Choose("engineAnswer", 0, 4) // four statuses or an error
	if !h.Thorough() && (es == 2 || es == 3) {
		return // SYNCING/ACCEPTED are explored in the thorough tier
	}
	eng := &vhEngine{newPayloadErr: es == 4, newPayloadStatus: vhStatuses[es%4]}
	k, ctx := vhKeeper(h, b, l, &vhRelayerK{}, eng)
	p, ctx := vhBuildProposal(h, k, ctx, b, l)
	var err error
	panicked := h.Panics(func() { err = k.verifyEthBlockProposal(ctx, p.msg) })
	h.Assert(!panicked, "no-proposal-crashes-the-node")
	if panicked {
		return
	}
	h.NoRace("proposal-verification-tasks-do-not-race")
	h.NoteBool("accepted", err == nil)
	honest := !p.nilPayload && p.childOfHead && p.rightNumber && p.rightBeacon && p.rightProposer && p.rightRecipient && p.oneGas && p.dequeueOK
	if err == nil {
		h.Assert(honest, "accepted-block-is-a-well-formed-child-of-the-head")
		h.Assert(es == 0, "engine-said-valid")
		h.Assert(p.msg.Payload.Timestamp <= uint64(time.Now().UTC().Unix()), "timestamp-not-in-the-future")
		h.Reach("accepted")
	} else {
		h.Reach("refused")
	}
}

// VH_C08_tx_shape: ProcessProposal accepts only blocks of 1..16 transactions whose first
// transaction carries exactly one message, the block message, and in which no other
// transaction carries one.
func VH_C08_tx_shape(h *vrt.H) {
	b, l := &vhBitcoin{}, &vhLocking{}
	eng := &vhEngine{newPayloadStatus: engine.VALID}
	k, ctx := vhKeeper(h, b, l, &vhRelayerK{}, eng)
	head := types.ExecutionPayload{BlockHash: h.Bytes("headHash", 32), BlockNumber: h.U64("headNumber")}
	h.Assume(head.BlockNumber < 1<<62)
	beacon := h.Bytes("beaconRoot", 32)
	vhMust(k.Block.Set(ctx, head))
	vhMust(k.BeaconRoot.Set(ctx, beacon))
	proposer := h.Bytes("proposer", 20)
	ctx = ctx.WithCometInfo(vhComet{proposer: proposer})
	proposerStr, cerr := k.addressCodec.BytesToString(proposer)
	vhMust(cerr)
	msg := &types.MsgNewEthBlock{Proposer: proposerStr, Payload: &types.ExecutionPayload{
		ParentHash: head.BlockHash, FeeRecipient: proposer, BlockNumber: head.BlockNumber + 1, Timestamp: 1, ExtraData: make([]byte, 33),
		BlockHash: h.Bytes("blockHash", 32), BeaconRoot: beacon, Requests: [][]byte{append([]byte{0}, h.Bytes("gasRevenue", 40)...)},
		StateRoot: make([]byte, 32), ReceiptsRoot: make([]byte, 32), LogsBloom: make([]byte, 256), PrevRandao: make([]byte, 32)}}
	first := vhTx{msgs: []sdk.Msg{msg}}
	shape := h.Choose("firstTxShape", 0, 5)
	switch shape {
	case 4: // the block message twice in the first transaction
		first = vhTx{msgs: []sdk.Msg{msg, msg}}
	case 5: // another message in front of the block message
		first = vhTx{msgs: []sdk.Msg{&vhOtherMsg{}, msg}}
	case 1:
		first = vhTx{msgs: []sdk.Msg{msg, &vhOtherMsg{}}}
	case 2:
		first = vhTx{msgs: []sdk.Msg{&vhOtherMsg{}}}
	case 3:
		first = vhTx{msgs: nil}
	}
	ver := vhVerifier{txs: map[string]sdk.Tx{"tx0": first}, fail: h.Choose("txUndecodable", 0, 1) == 1}
	raw := [][]byte{[]byte("tx0")}
	nMore := h.Choose("moreTxs", 0, 2)
	secondBlockMsg := false
	for i := 0; i < nMore; i++ {
		name := h.Name("tx", i+1)
		if h.Choose(h.Name("carriesBlockMsg", i+1), 0, 1) == 1 {
			ver.txs[name] = vhTx{msgs: []sdk.Msg{&vhOtherMsg{}, msg}}
			secondBlockMsg = true
		} else {
			ver.txs[name] = vhTx{msgs: []sdk.Msg{&vhOtherMsg{}}}
		}
		raw = append(raw, []byte(name))
	}
	switch h.Choose("size", 0, 2) {
	case 1: // no transaction at all
		raw = nil
	case 2: // seventeen transactions
		ver.txs["pad"] = vhTx{msgs: []sdk.Msg{&vhOtherMsg{}}}
		for len(raw) < 17 {
			raw = append(raw, []byte("pad"))
		}
	}
	var res *abci.ResponseProcessProposal
	var err error
	panicked := h.Panics(func() {
		res, err = k.ProcessProposalHandler(ver)(ctx, &abci.RequestProcessProposal{Txs: raw})
	})
	h.Assert(!panicked, "no-proposal-crashes-the-node")
	if panicked {
		return
	}
	h.NoRace("proposal-verification-tasks-do-not-race")
	accepted := err == nil && res != nil && res.Status == abci.ResponseProcessProposal_ACCEPT
	h.NoteBool("accepted", accepted)
	if accepted {
		h.Assert(len(raw) >= 1 && len(raw) <= 16, "between-1-and-16-transactions")
		h.Assert(shape == 0, "first-tx-is-exactly-the-block-message")
		h.Assert(!secondBlockMsg, "no-other-tx-carries-a-block-message")
		h.Assert(!ver.fail, "every-transaction-decodes")
		h.Reach("accepted")
	} else {
		h.Assert(!(shape == 0 && !secondBlockMsg && !ver.fail && len(raw) >= 1 && len(raw) <= 16), "well-formed-honest-block-is-accepted")
		h.Reach("refused")
	}
}

// VH_C08_honest_accepted: the payload a well-behaved engine envelope converts to is accepted
// by the verifier, and passes every guard of the block message handler (agreement between
// proposer-side conversion, verifier and handler).
func VH_C08_honest_accepted(h *vrt.H) {
	nb, nl := h.Choose("bridgeDue", 0, 1), h.Choose("lockingDue", 0, 1)
	b := &vhBitcoin{due: vhBridgeDue(h, nb, h.U64("bridgeNonce"))}
	l := &vhLocking{due: vhLockingDue(h, nl, h.U64("lockingNonce"))}
	eng := &vhEngine{newPayloadStatus: engine.VALID}
	k, ctx := vhKeeper(h, b, l, &vhRelayerK{}, eng)
	head := types.ExecutionPayload{BlockHash: h.Bytes("headHash", 32), BlockNumber: h.U64("headNumber")}
	h.Assume(head.BlockNumber < 1<<62)
	beacon := h.Bytes("beaconRoot", 32)
	vhMust(k.Block.Set(ctx, head))
	vhMust(k.BeaconRoot.Set(ctx, beacon))
	proposer := h.Bytes("proposer", 20)
	ctx = ctx.WithCometInfo(vhComet{proposer: proposer}).WithHeaderHash(h.Bytes("headerHash", 32))
	proposerStr, err := k.addressCodec.BytesToString(proposer)
	vhMust(err)
	// the envelope of a well-behaved engine
	dueRaw, derr := k.Dequeue(ctx)
	vhMust(derr)
	extra := make([]byte, 33)
	extra[0] = byte(len(dueRaw))
	txs := dueRaw
	if h.Choose("userTx", 0, 1) == 1 {
		txs = append(txs, h.Bytes("userTxBytes", 12))
	}
	data := &engine.ExecutableData{
		ParentHash: common.BytesToHash(head.BlockHash), FeeRecipient: common.BytesToAddress(proposer),
		Number: head.BlockNumber + 1, Timestamp: 1, ExtraData: extra, BaseFeePerGas: h.Big("baseFee", "0", "340282366920938463463374607431768211455"),
		BlockHash: common.BytesToHash(h.Bytes("blockHash", 32)), Transactions: txs, LogsBloom: make([]byte, 256),
	}
	gasReq := append([]byte{0}, h.Bytes("gasRevenue", 40)...)
	payload := types.ExecutableDataToPayload(data, beacon, [][]byte{gasReq})
	msg := &types.MsgNewEthBlock{Proposer: proposerStr, Payload: payload}
	verr := k.verifyEthBlockProposal(ctx, msg)
	h.NoRace("proposal-verification-tasks-do-not-race")
	h.Log("verr", verr)
	h.Assert(verr == nil, "honest-proposal-is-accepted-by-the-verifier")
	b.calls, l.calls = 0, 0
	_, herr := (msgServer{Keeper: k}).NewEthBlock(ctx, msg)
	h.Assert(herr == nil, "honest-proposal-passes-the-handler")
	h.Reach("end")
}
