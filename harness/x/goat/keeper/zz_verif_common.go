package keeper

import (
	"context"

	"cosmossdk.io/core/comet"

	"cosmossdk.io/math"
	"errors"

	sdk "github.com/cosmos/cosmos-sdk/types"
	ethtypes "github.com/ethereum/go-ethereum/core/types"
	"github.com/ethereum/go-ethereum/core/types/goattypes"
	"github.com/goatnetwork/goat/pkg/ethrpc"
	bitcointypes "github.com/goatnetwork/goat/x/bitcoin/types"
	"github.com/goatnetwork/goat/x/goat/types"
	lockingtypes "github.com/goatnetwork/goat/x/locking/types"
	relayer "github.com/goatnetwork/goat/x/relayer/types"
	"github.com/goatnetwork/goat/zzverif/vrt"
)

var errVh = errors.New("vh: stub refused")

// stub sub-keepers: what they hand over / accept is the harness' choice; calls are logged
type vhBitcoin struct {
	due      []*ethtypes.Transaction
	err      bool
	calls    int
	requests int
	reqErr   bool
}

func (b *vhBitcoin) DequeueBitcoinModuleTx(ctx context.Context) ([]*ethtypes.Transaction, error) {
	b.calls++
	if b.err {
		return nil, errVh
	}
	return b.due, nil
}
func (b *vhBitcoin) ProcessBridgeRequest(ctx context.Context, req goattypes.BridgeRequests) error {
	b.requests++
	if b.reqErr {
		return errVh
	}
	return nil
}

type vhLocking struct {
	due      []*ethtypes.Transaction
	calls    int
	requests int
	gasReqs  int
	reqErr   bool
}

func (l *vhLocking) DequeueLockingModuleTx(ctx context.Context) ([]*ethtypes.Transaction, error) {
	l.calls++
	return l.due, nil
}
func (l *vhLocking) ProcessLockingRequest(ctx context.Context, req goattypes.LockingRequests) error {
	l.requests++
	l.gasReqs = len(req.Gas)
	if l.reqErr {
		return errVh
	}
	return nil
}

type vhRelayerK struct {
	proposer sdk.AccAddress
	err      bool
	requests int
}

func (r *vhRelayerK) GetCurrentProposer(ctx context.Context) (sdk.AccAddress, error) {
	if r.err {
		return nil, errVh
	}
	return r.proposer, nil
}
func (r *vhRelayerK) ProcessRelayerRequest(ctx context.Context, req goattypes.RelayerRequests) error {
	r.requests++
	return nil
}
func (r *vhRelayerK) VerifyProposal(ctx context.Context, req relayer.IVoteMsg, verifyFn ...func(sigdoc []byte) error) (uint64, error) {
	return 0, nil
}
func (r *vhRelayerK) VerifyNonProposal(ctx context.Context, req relayer.INonVoteMsg) (relayer.IRelayer, error) {
	return nil, nil
}
func (r *vhRelayerK) UpdateRandao(ctx context.Context, req relayer.IVoteMsg) error { return nil }
func (r *vhRelayerK) HasPubkey(ctx context.Context, raw []byte) (bool, error)      { return false, nil }
func (r *vhRelayerK) AddNewKey(ctx context.Context, raw []byte) error              { return nil }
func (r *vhRelayerK) SetProposalSeq(ctx context.Context, seq uint64) error         { return nil }

func vhKeeper(h *vrt.H, b types.BitcoinKeeper, l types.LockingKeeper, r types.RelayerKeeper, eng ethrpc.EngineClient) (Keeper, sdk.Context) {
	k := NewKeeper(h.Codec(), h.AddressCodec(), h.StoreService(types.StoreKey), h.Logger(), b, l, r, nil, eng)
	return k, h.Ctx()
}

func vhMust(err error) {
	if err != nil {
		panic("vh: harness state construction failed: " + err.Error())
	}
}

// due transactions built by the REAL builders of the two modules
func vhBridgeDue(h *vrt.H, n int, nonce uint64) []*ethtypes.Transaction {
	var out []*ethtypes.Transaction
	for i := 0; i < n; i++ {
		out = append(out, bitcointypes.NewRejectEthTx(h.U64(h.Name("refundId", i)), nonce+uint64(i)))
	}
	return out
}

func vhLockingDue(h *vrt.H, n int, nonce uint64) []*ethtypes.Transaction {
	var out []*ethtypes.Transaction
	for i := 0; i < n; i++ {
		u := &lockingtypes.Unlock{Id: h.U64(h.Name("unlockId", i)), Recipient: make([]byte, 20), Token: make([]byte, 20), Amount: math.NewInt(int64(7 + i))}
		out = append(out, u.EthTx(nonce+uint64(i)))
	}
	return out
}

type ethTxT = ethtypes.Transaction

type (
	cometEvidenceList = comet.EvidenceList
	cometCommitInfo   = comet.CommitInfo
)
