package keeper

import (
	"bytes"

	sdk "github.com/cosmos/cosmos-sdk/types"
	"github.com/ethereum/go-ethereum/beacon/engine"
	"github.com/goatnetwork/goat/x/goat/types"
	"github.com/goatnetwork/goat/zzverif/vrt"
)

// VH_C09_new_block: the recorded execution head advances only to a valid child proposed by
// the consensus proposer; a refused message leaves head and beacon root as they were and
// forwards no requests to the modules.
func VH_C09_new_block(h *vrt.H) {
	nb := h.Choose("bridgeDue", 0, 1)
	b := &vhBitcoin{due: vhBridgeDue(h, nb, h.U64("bridgeNonce")), reqErr: h.Bool("bridgeRequestFails")}
	l := &vhLocking{due: vhLockingDue(h, nb, h.U64("lockingNonce")), reqErr: h.Bool("lockingRequestFails")}
	r := &vhRelayerK{}
	k, ctx := vhKeeper(h, b, l, r, &vhEngine{})
	p, ctx := vhBuildProposal(h, k, ctx, b, l)
	headerHash := h.Bytes("headerHash", 32)
	ctx = ctx.WithHeaderHash(headerHash)
	var err error
	// a nil payload panics in the handler (it reads the fee recipient first): message handlers
	// run under baseapp's recover, the transaction fails and nothing is committed
	if h.Panics(func() { _, err = (msgServer{Keeper: k}).NewEthBlock(ctx, p.msg) }) {
		h.Assert(p.nilPayload, "handler-panics-only-on-a-nil-payload")
		h.Reach("panicked-recovered-by-runtx")
		return
	}
	h.NoteBool("ok", err == nil)
	post, gerr := k.Block.Get(ctx)
	vhMust(gerr)
	root, rerr := k.BeaconRoot.Get(ctx)
	vhMust(rerr)
	if err != nil {
		h.Assert(bytes.Equal(post.BlockHash, p.head.BlockHash) && post.BlockNumber == p.head.BlockNumber && bytes.Equal(root, p.beacon), "refused-block-leaves-head-and-beacon-root")
		if !(p.childOfHead && p.rightNumber && p.rightBeacon && p.rightProposer && p.rightRecipient && p.dequeueOK && p.msg.Payload.BlobGasUsed == 0) {
			h.Assert(b.requests == 0 && l.requests == 0 && r.requests == 0, "malformed-block-forwards-no-requests")
		}
		h.Reach("refused")
		return
	}
	pl := p.msg.Payload
	h.Assert(p.childOfHead && p.rightNumber, "head-advances-only-to-a-child-of-the-head")
	h.Assert(p.rightProposer && p.rightRecipient, "block-comes-from-the-consensus-proposer")
	h.Assert(p.rightBeacon, "block-refers-to-the-recorded-beacon-root")
	h.Assert(pl.BlobGasUsed == 0, "no-blob-gas")
	h.Assert(p.dequeueOK, "block-carries-the-due-system-transactions")
	h.Assert(bytes.Equal(post.BlockHash, pl.BlockHash) && post.BlockNumber == pl.BlockNumber && bytes.Equal(post.ParentHash, pl.ParentHash), "head-becomes-the-payload")
	h.Assert(bytes.Equal(root, headerHash), "beacon-root-becomes-this-blocks-header-hash")
	h.Assert(l.requests == 1 && b.requests == 1 && r.requests == 1 && !b.reqErr && !l.reqErr, "requests-forwarded-once-to-every-module")
	h.Reach("advanced")
}

// VH_C09_finalized: at the end of every block the engine is told about the recorded head
// (NewPayloadV4 of exactly that payload, then ForkchoiceUpdatedV3 with head = its hash and
// safe = finalized = its parent, no payload attributes); an engine error or an INVALID
// answer on either call fails the block, SYNCING/ACCEPTED are tolerated; nothing is written.
func VH_C09_finalized(h *vrt.H) {
	np, fk := h.Choose("newPayloadAnswer", 0, 4), h.Choose("forkchoiceAnswer", 0, 4)
	eng := &vhEngine{newPayloadErr: np == 4, newPayloadStatus: vhStatuses[np%4], forkErr: fk == 4, forkStatus: vhStatuses[fk%4]}
	k, ctx := vhKeeper(h, &vhBitcoin{}, &vhLocking{}, &vhRelayerK{}, eng)
	head := types.ExecutionPayload{
		ParentHash: h.Bytes("parentHash", 32), FeeRecipient: h.Bytes("feeRecipient", 20), StateRoot: make([]byte, 32), ReceiptsRoot: make([]byte, 32),
		LogsBloom: make([]byte, 256), PrevRandao: make([]byte, 32), BlockNumber: h.U64("number"), GasLimit: h.U64("gasLimit"), GasUsed: h.U64("gasUsed"),
		Timestamp: h.U64("timestamp"), ExtraData: make([]byte, 33), BaseFeePerGas: h.Int("baseFee", "0", "340282366920938463463374607431768211455"),
		BlockHash: h.Bytes("blockHash", 32), BeaconRoot: h.Bytes("beaconRoot", 32), Requests: [][]byte{append([]byte{0}, h.Bytes("gasRevenue", 40)...)},
	}
	if h.Choose("hasTx", 0, 1) == 1 {
		head.Transactions = [][]byte{h.Bytes("tx", 10)}
	}
	vhMust(k.Block.Set(ctx, head))
	vhMust(k.BeaconRoot.Set(ctx, h.Bytes("storedBeacon", 32)))
	err := k.Finalized(ctx)
	h.NoteBool("ok", err == nil)
	post, gerr := k.Block.Get(ctx)
	vhMust(gerr)
	h.Assert(bytes.Equal(post.BlockHash, head.BlockHash) && post.BlockNumber == head.BlockNumber, "finalisation-writes-nothing")
	h.Assert(len(eng.calls) >= 1 && eng.calls[0] == "NewPayloadV4", "engine-first-receives-the-payload")
	if len(eng.calls) >= 1 && eng.lastPayload != nil {
		ep := eng.lastPayload
		h.Assert(bytes.Equal(ep.BlockHash.Bytes(), head.BlockHash) && bytes.Equal(ep.ParentHash.Bytes(), head.ParentHash) && ep.Number == head.BlockNumber &&
			ep.Timestamp == head.Timestamp && ep.GasLimit == head.GasLimit && ep.GasUsed == head.GasUsed && bytes.Equal(ep.FeeRecipient.Bytes(), head.FeeRecipient) &&
			len(ep.Transactions) == len(head.Transactions), "engine-receives-exactly-the-recorded-head")
		h.Assert(bytes.Equal(eng.lastBeaconRoot.Bytes(), head.BeaconRoot) && len(eng.lastRequests) == 1, "engine-receives-the-heads-beacon-root-and-requests")
	}
	newPayloadBad := np == 4 || vhStatuses[np%4] == engine.INVALID
	forkBad := fk == 4 || vhStatuses[fk%4] == engine.INVALID
	if newPayloadBad {
		h.Assert(err != nil && len(eng.calls) == 1, "engine-fault-on-new-payload-fails-the-block")
		h.Reach("new-payload-fault")
		return
	}
	h.Assert(len(eng.calls) == 2 && eng.calls[1] == "ForkchoiceUpdatedV3", "then-fork-choice-is-updated")
	if eng.lastFork != nil {
		h.Assert(bytes.Equal(eng.lastFork.HeadBlockHash.Bytes(), head.BlockHash) && bytes.Equal(eng.lastFork.SafeBlockHash.Bytes(), head.ParentHash) &&
			bytes.Equal(eng.lastFork.FinalizedBlockHash.Bytes(), head.ParentHash) && eng.forkAttrsNil, "fork-choice-head-is-the-block-safe-and-finalized-its-parent")
	}
	h.Assert((err != nil) == forkBad, "block-fails-iff-the-engine-reports-a-fault")
	h.Reach("done")
}

var _ sdk.Context
