package keeper

import (
	"bytes"

	"github.com/goatnetwork/goat/zzverif/vrt"
)

// VH_C06_verify_dequeue: a proposed execution block is accepted exactly when its header
// announces as many system transactions as are due and its leading transactions are the due
// ones, byte for byte, bridge first then locking.
func VH_C06_verify_dequeue(h *vrt.H) {
	nb, nl := h.Choose("bridgeDue", 0, 2), h.Choose("lockingDue", 0, 2)
	b := &vhBitcoin{due: vhBridgeDue(h, nb, h.U64("bridgeNonce"))}
	l := &vhLocking{due: vhLockingDue(h, nl, h.U64("lockingNonce"))}
	k, ctx := vhKeeper(h, b, l, &vhRelayerK{}, nil)
	// the payload: the due transactions (each optionally altered in one byte), optionally one
	// dropped or two swapped, followed by 0..1 ordinary transactions
	var want [][]byte
	for _, tx := range append(append([]*ethTxT{}, b.due...), l.due...) {
		raw, err := tx.MarshalBinary()
		vhMust(err)
		want = append(want, raw)
	}
	txs := make([][]byte, 0, len(want)+1)
	faithful := true
	alterWhich := h.Choose("alterWhich", -1, len(want)-1) // -1: all faithful
	for i, raw := range want {
		cp := append([]byte{}, raw...)
		if i == alterWhich {
			// a byte of the type / module / nonce / payload part
			pos := []int{0, 1, 3, len(cp) - 1}[h.Choose("alterPos", 0, 3)]
			x := h.U8("alterXor")
			h.Assume(x != 0)
			cp[pos] ^= x
			faithful = false
		}
		txs = append(txs, cp)
	}
	switch h.Choose("reshape", 0, 2) {
	case 1:
		if len(txs) > 0 {
			txs = txs[:len(txs)-1]
			faithful = false
		}
	case 2:
		if len(txs) > 1 {
			txs[0], txs[1] = txs[1], txs[0]
			if !bytes.Equal(txs[0], txs[1]) {
				faithful = false
			}
		}
	}
	if h.Choose("mempoolTx", 0, 1) == 1 {
		txs = append(txs, h.Bytes("mempoolTxBytes", 20))
	}
	rootLen := []int{0, 31, 32, 33}[h.Choose("extraLen", 0, 3)]
	root := h.Bytes("extra", rootLen)
	err := k.VerifyDequeue(ctx, root, txs)
	h.NoteBool("accepted", err == nil)
	if err == nil {
		h.Assert(rootLen == 33 && int(root[0]) == nb+nl, "header-announces-exactly-the-due-count")
		h.Assert(len(txs) >= nb+nl, "payload-holds-all-due-transactions")
		for i := 0; i < nb+nl && i < len(txs); i++ {
			h.Assert(bytes.Equal(txs[i], want[i]), "leading-transactions-are-the-due-ones-in-order")
		}
		h.Reach("accepted")
	} else {
		h.Assert(!(faithful && rootLen == 33 && int(root[0]) == nb+nl), "faithful-proposal-is-accepted")
		h.Reach("refused")
	}
}

// VH_C06_goat_dequeue: the proposer's list is the bridge hand-over followed by the locking
// hand-over, each sub-queue consulted once.
func VH_C06_goat_dequeue(h *vrt.H) {
	nb, nl := h.Choose("bridgeDue", 0, 2), h.Choose("lockingDue", 0, 2)
	b := &vhBitcoin{due: vhBridgeDue(h, nb, h.U64("bridgeNonce")), err: h.Bool("bridgeFails")}
	l := &vhLocking{due: vhLockingDue(h, nl, h.U64("lockingNonce"))}
	k, ctx := vhKeeper(h, b, l, &vhRelayerK{}, nil)
	res, err := k.Dequeue(ctx)
	if err != nil {
		h.Assert(b.err, "dequeue-fails-only-when-a-module-fails")
		h.Reach("failed")
		return
	}
	h.Assert(b.calls == 1 && l.calls == 1, "each-queue-consulted-once")
	h.Assert(len(res) == nb+nl, "all-due-transactions-listed")
	for i, tx := range append(append([]*ethTxT{}, b.due...), l.due...) {
		raw, merr := tx.MarshalBinary()
		vhMust(merr)
		h.Assert(i < len(res) && bytes.Equal(res[i], raw), "bridge-first-then-locking-in-order")
	}
	h.Reach("end")
}
