package keeper

import (
	"bytes"
	"context"
	"errors"

	"cosmossdk.io/core/address"
	abci "github.com/cometbft/cometbft/abci/types"
	sdk "github.com/cosmos/cosmos-sdk/types"
	"github.com/cosmos/cosmos-sdk/types/mempool"
	"github.com/ethereum/go-ethereum/beacon/engine"
	"github.com/ethereum/go-ethereum/common"
	"github.com/goatnetwork/goat/x/goat/types"
	"github.com/goatnetwork/goat/zzverif/vrt"
	protov2 "google.golang.org/protobuf/proto"
)

// ---- proposer-side stubs ----

type vhAccKeeper struct{ acc sdk.AccountI }

func (k vhAccKeeper) NewAccountWithAddress(context.Context, sdk.AccAddress) sdk.AccountI { return nil }
func (k vhAccKeeper) NewAccount(context.Context, sdk.AccountI) sdk.AccountI              { return nil }
func (k vhAccKeeper) HasAccount(context.Context, sdk.AccAddress) bool                    { return true }
func (k vhAccKeeper) GetAccount(context.Context, sdk.AccAddress) sdk.AccountI            { return k.acc }
func (k vhAccKeeper) SetAccount(context.Context, sdk.AccountI)                           {}
func (k vhAccKeeper) GetSequence(context.Context, sdk.AccAddress) (uint64, error)        { return 0, nil }
func (k vhAccKeeper) NextAccountNumber(context.Context) uint64                           { return 0 }
func (k vhAccKeeper) AddressCodec() address.Codec                                        { return nil }
func (k vhAccKeeper) RemoveAccount(ctx context.Context, acc sdk.AccountI)                {}

type vhPoolTx struct {
	id    int
	valid bool
}

func (vhPoolTx) GetMsgs() []sdk.Msg                    { return nil }
func (vhPoolTx) GetMsgsV2() ([]protov2.Message, error) { return nil, nil }

type vhPoolIter struct {
	txs []vhPoolTx
	idx int
}

func (i *vhPoolIter) Tx() sdk.Tx { return i.txs[i.idx] }
func (i *vhPoolIter) Next() mempool.Iterator {
	if i.idx+1 >= len(i.txs) {
		return nil
	}
	return &vhPoolIter{txs: i.txs, idx: i.idx + 1}
}

type vhPool struct {
	txs     []vhPoolTx
	removed []int
}

func (p *vhPool) Insert(context.Context, sdk.Tx) error { return nil }
func (p *vhPool) Select(context.Context, [][]byte) mempool.Iterator {
	if len(p.txs) == 0 {
		return nil
	}
	return &vhPoolIter{txs: p.txs}
}
func (p *vhPool) CountTx() int { return len(p.txs) }
func (p *vhPool) Remove(tx sdk.Tx) error {
	p.removed = append(p.removed, tx.(vhPoolTx).id)
	return nil
}

type vhPrepareVerifier struct{}

func (vhPrepareVerifier) PrepareProposalVerifyTx(tx sdk.Tx) ([]byte, error) {
	t := tx.(vhPoolTx)
	if !t.valid {
		return nil, errors.New("vh: tx no longer valid")
	}
	return []byte{'t', 'x', byte(t.id)}, nil
}
func (vhPrepareVerifier) ProcessProposalVerifyTx(raw []byte) (sdk.Tx, error) { return nil, errVh }
func (vhPrepareVerifier) TxDecode(raw []byte) (sdk.Tx, error)                { return nil, errVh }
func (vhPrepareVerifier) TxEncode(tx sdk.Tx) ([]byte, error)                 { return nil, errVh }

// an engine that builds a payload on request
type vhBuilderEngine struct {
	vhEngine
	parent  []byte
	number  uint64
	fee     []byte
	goatTxs [][]byte
}

func (e *vhBuilderEngine) ForkchoiceUpdatedV3(ctx context.Context, update *engine.ForkchoiceStateV1, attrs *engine.PayloadAttributes) (engine.ForkChoiceResponse, error) {
	if attrs != nil {
		e.goatTxs = attrs.GoatTxs
	}
	id := engine.PayloadID{1}
	return engine.ForkChoiceResponse{PayloadStatus: engine.PayloadStatusV1{Status: engine.VALID}, PayloadID: &id}, nil
}
func (e *vhBuilderEngine) GetPayloadV4(ctx context.Context, id engine.PayloadID) (*engine.ExecutionPayloadEnvelope, error) {
	extra := make([]byte, 33)
	extra[0] = byte(len(e.goatTxs))
	return &engine.ExecutionPayloadEnvelope{ExecutionPayload: &engine.ExecutableData{
		ParentHash: common.BytesToHash(e.parent), FeeRecipient: common.BytesToAddress(e.fee), Number: e.number, Timestamp: 1, ExtraData: extra,
		BaseFeePerGas: common.Big1, Transactions: e.goatTxs, LogsBloom: make([]byte, 256)}, Requests: [][]byte{append([]byte{0}, make([]byte, 40)...)}}, nil
}

// VH_C08_prepare: an honest proposer never builds a block the verifier's size rule refuses:
// the block transaction comes first, at most 15 pool transactions follow (16 in total), each
// of them passed the proposer-side verification, in pool order; transactions that fail it
// are removed from the pool and skipped.
func VH_C08_prepare(h *vrt.H) {
	priv, acc, txConfig := h.ProposerEnv()
	eng := &vhBuilderEngine{}
	pool := &vhPool{}
	k := NewKeeper(h.Codec(), h.AddressCodec(), h.StoreService(types.StoreKey), h.Logger(), &vhBitcoin{}, &vhLocking{}, &vhRelayerK{}, vhAccKeeper{acc: acc}, eng)
	ctx := h.Ctx().WithChainID("goat-verif-1")
	head := types.ExecutionPayload{BlockHash: h.Bytes("headHash", 32), BlockNumber: h.U64("headNumber")}
	h.Assume(head.BlockNumber < 1<<62)
	vhMust(k.Block.Set(ctx, head))
	vhMust(k.BeaconRoot.Set(ctx, h.Bytes("beaconRoot", 32)))
	proposer := h.Bytes("proposerAddress", 20)
	eng.parent, eng.number, eng.fee = head.BlockHash, head.BlockNumber+1, proposer
	n := h.Choose("poolSize", 0, 18)
	nValid := 0
	for i := 0; i < n; i++ {
		v := true
		if i < 3 { // the first three may have become invalid
			v = h.Choose(h.Name("valid", i), 0, 1) == 1
		}
		if v {
			nValid++
		}
		pool.txs = append(pool.txs, vhPoolTx{id: i, valid: v})
	}
	res, err := k.PrepareProposalHandler(pool, vhPrepareVerifier{}, priv, txConfig)(ctx, &abci.RequestPrepareProposal{ProposerAddress: proposer, Height: 10})
	h.Assert(err == nil, "honest-proposer-builds-a-proposal")
	if err != nil {
		h.Log("err", err)
		return
	}
	h.NoRace("proposal-building-tasks-do-not-race")
	h.Assert(len(res.Txs) >= 1 && len(res.Txs) <= 16, "proposal-has-between-1-and-16-transactions")
	want := min(nValid, 15)
	h.Assert(len(res.Txs) == 1+want, "block-tx-plus-up-to-15-pool-transactions")
	// pool transactions appear in pool order, only valid ones
	pos := 1
	for i := 0; i < n && pos < len(res.Txs); i++ {
		if pool.txs[i].valid {
			h.Assert(len(res.Txs[pos]) == 3 && res.Txs[pos][2] == byte(i), "pool-order-preserved-and-only-verified-transactions")
			pos++
		}
	}
	for _, id := range pool.removed {
		h.Assert(!pool.txs[id].valid, "only-invalid-transactions-are-evicted")
	}
	h.Reach("end")
}

// an engine with a chosen fault on each of the two proposer-side calls; arguments recorded
type vhFaultyBuilder struct {
	vhBuilderEngine
	forkFault int // 0 none, 1 error, 2 INVALID, 3 SYNCING, 4 ACCEPTED, 5 VALID without a payload id
	getFault  bool
	state     *engine.ForkchoiceStateV1
	attrs     *engine.PayloadAttributes
}

func (e *vhFaultyBuilder) ForkchoiceUpdatedV3(ctx context.Context, update *engine.ForkchoiceStateV1, attrs *engine.PayloadAttributes) (engine.ForkChoiceResponse, error) {
	e.calls = append(e.calls, "ForkchoiceUpdatedV3")
	e.state, e.attrs = update, attrs
	if attrs != nil {
		e.goatTxs = attrs.GoatTxs
	}
	id := engine.PayloadID{1}
	switch e.forkFault {
	case 1:
		return engine.ForkChoiceResponse{}, errVh
	case 2, 3, 4:
		return engine.ForkChoiceResponse{PayloadStatus: engine.PayloadStatusV1{Status: vhStatuses[e.forkFault-1]}, PayloadID: &id}, nil
	case 5:
		return engine.ForkChoiceResponse{PayloadStatus: engine.PayloadStatusV1{Status: engine.VALID}}, nil
	}
	return engine.ForkChoiceResponse{PayloadStatus: engine.PayloadStatusV1{Status: engine.VALID}, PayloadID: &id}, nil
}

func (e *vhFaultyBuilder) GetPayloadV4(ctx context.Context, id engine.PayloadID) (*engine.ExecutionPayloadEnvelope, error) {
	e.calls = append(e.calls, "GetPayloadV4")
	if e.getFault {
		return nil, errVh
	}
	return e.vhBuilderEngine.GetPayloadV4(ctx, id)
}

// VH_C09_propose_faults: while proposing, the engine is asked to build on exactly the recorded
// head with the recorded beacon root, the proposer as fee recipient and the due system
// transactions; a fault on either call (error, INVALID/SYNCING/ACCEPTED, no payload id, no
// payload) makes the proposal fail - nothing is proposed on top of a faulty answer - and nothing
// is written to the store.
func VH_C09_propose_faults(h *vrt.H) {
	priv, acc, txConfig := h.ProposerEnv()
	eng := &vhFaultyBuilder{forkFault: h.Choose("forkchoiceFault", 0, 5), getFault: h.Choose("getPayloadFault", 0, 1) == 1}
	nb, nl := h.Choose("bridgeDue", 0, 1), h.Choose("lockingDue", 0, 1)
	b := &vhBitcoin{due: vhBridgeDue(h, nb, h.U64("bridgeNonce"))}
	l := &vhLocking{due: vhLockingDue(h, nl, h.U64("lockingNonce"))}
	k := NewKeeper(h.Codec(), h.AddressCodec(), h.StoreService(types.StoreKey), h.Logger(), b, l, &vhRelayerK{}, vhAccKeeper{acc: acc}, eng)
	ctx := h.Ctx().WithChainID("goat-verif-1")
	head := types.ExecutionPayload{BlockHash: h.Bytes("headHash", 32), BlockNumber: h.U64("headNumber"), ParentHash: h.Bytes("headParent", 32)}
	h.Assume(head.BlockNumber < 1<<62)
	beacon := h.Bytes("beaconRoot", 32)
	vhMust(k.Block.Set(ctx, head))
	vhMust(k.BeaconRoot.Set(ctx, beacon))
	proposer := h.Bytes("proposerAddress", 20)
	eng.parent, eng.number, eng.fee = head.BlockHash, head.BlockNumber+1, proposer
	res, err := k.PrepareProposalHandler(&vhPool{}, vhPrepareVerifier{}, priv, txConfig)(ctx, &abci.RequestPrepareProposal{ProposerAddress: proposer, Height: 10})
	h.NoteBool("proposed", err == nil)
	fault := eng.forkFault != 0 || eng.getFault
	h.Assert((err != nil) == fault, "proposal-fails-iff-the-engine-faults")
	h.Assert(len(eng.calls) >= 1 && eng.calls[0] == "ForkchoiceUpdatedV3", "engine-is-first-asked-to-build")
	if eng.forkFault != 0 {
		h.Assert(len(eng.calls) == 1, "no-payload-is-fetched-after-a-faulty-fork-choice-answer")
	} else {
		h.Assert(len(eng.calls) == 2 && eng.calls[1] == "GetPayloadV4", "then-the-payload-is-fetched-once")
	}
	if eng.state != nil && eng.attrs != nil {
		h.Assert(bytes.Equal(eng.state.HeadBlockHash.Bytes(), head.BlockHash), "engine-builds-on-the-recorded-head")
		h.Assert(eng.attrs.BeaconRoot != nil && bytes.Equal(eng.attrs.BeaconRoot.Bytes(), beacon), "engine-builds-with-the-recorded-beacon-root")
		h.Assert(bytes.Equal(eng.attrs.SuggestedFeeRecipient.Bytes(), proposer), "engine-builds-for-the-proposer")
		h.Assert(len(eng.attrs.GoatTxs) == nb+nl, "engine-builds-with-the-due-system-transactions")
		due := append(append([]*ethTxT{}, b.due...), l.due...)
		for i, tx := range due {
			raw, merr := tx.MarshalBinary()
			vhMust(merr)
			if i < len(eng.attrs.GoatTxs) {
				h.Assert(bytes.Equal(eng.attrs.GoatTxs[i], raw), "engine-builds-with-the-due-system-transactions")
			}
		}
	} else {
		h.Assert(false, "engine-is-first-asked-to-build")
	}
	post, gerr := k.Block.Get(ctx)
	vhMust(gerr)
	root, rerr := k.BeaconRoot.Get(ctx)
	vhMust(rerr)
	h.Assert(bytes.Equal(post.BlockHash, head.BlockHash) && post.BlockNumber == head.BlockNumber && bytes.Equal(root, beacon), "proposing-writes-nothing")
	h.Assert(b.requests == 0 && l.requests == 0, "proposing-forwards-no-requests")
	if err == nil {
		h.Assert(len(res.Txs) == 1 && len(res.Txs[0]) > 0, "proposal-is-the-block-transaction")
		h.Reach("proposed")
		return
	}
	h.Reach("refused")
}
