package relayer

import (
	"bytes"
	"time"

	goatcrypto "github.com/goatnetwork/goat/pkg/crypto"
	"github.com/goatnetwork/goat/x/relayer/keeper"
	"github.com/goatnetwork/goat/x/relayer/types"
	"github.com/goatnetwork/goat/zzverif/vrt"
)

func vhMust(err error) {
	if err != nil {
		panic("vh: harness state construction failed: " + err.Error())
	}
}

// VH_C18_relayer: export of any reachable relayer state re-imports without panic into an
// equal state (group, voter records, boarding queues as sets, registered keys, sequence,
// randomness accumulator, parameters).
func VH_C18_relayer(h *vrt.H) {
	ka := keeper.NewKeeper(h.Codec(), h.AddressCodec(), h.StoreService("relayerA"), nil, h.Logger())
	kb := keeper.NewKeeper(h.Codec(), h.AddressCodec(), h.StoreService("relayerB"), nil, h.Logger())
	ctx := h.Ctx()
	addrB := func(i int) []byte { a := make([]byte, 20); a[0], a[19] = 0xE0, byte(i+1); return a }
	addrS := func(i int) string { s, err := ka.AddrCodec.BytesToString(addrB(i)); vhMust(err); return s }
	nV := h.Choose("nVoters", 0, 2)
	rel := types.Relayer{Epoch: h.U64("epoch"), Proposer: addrS(0), ProposerAccepted: h.Bool("accepted"), LastElected: time.Unix(int64(h.U32("lastElected")), 0).UTC()}
	var queue types.VoterQueue
	type rec struct {
		addr string
		v    types.Voter
	}
	var recs []rec
	offIdx := h.Choose("offBoardingMember", -1, nV) // -1: nobody
	for i := 0; i <= nV; i++ {
		st := types.VOTER_STATUS_ACTIVATED
		if i == offIdx && nV >= 1 {
			st = types.VOTER_STATUS_OFF_BOARDING
			queue.OffBoarding = append(queue.OffBoarding, addrS(i))
		}
		recs = append(recs, rec{addrS(i), types.Voter{Address: addrB(i), VoteKey: h.BLSKey(i), Status: st, Height: h.U64(h.Name("height", i))}})
		if i > 0 {
			rel.Voters = append(rel.Voters, addrS(i))
		}
	}
	if h.Choose("onBoardingVoter", 0, 1) == 1 {
		recs = append(recs, rec{addrS(10), types.Voter{Address: addrB(10), VoteKey: h.BLSKey(10), Status: types.VOTER_STATUS_ON_BOARDING, Height: h.U64("height_10")}})
		queue.OnBoarding = append(queue.OnBoarding, addrS(10))
	}
	if h.Choose("pendingVoter", 0, 1) == 1 { // registered on the execution layer, proofs not yet submitted: the key is a 32-byte hash
		recs = append(recs, rec{addrS(11), types.Voter{Address: addrB(11), VoteKey: goatcrypto.SHA256Sum(h.BLSKey(11)), Status: types.VOTER_STATUS_PENDING, Height: h.U64("height_11")}})
	}
	for _, r := range recs {
		vhMust(ka.Voters.Set(ctx, r.addr, r.v))
	}
	vhMust(ka.Relayer.Set(ctx, rel))
	vhMust(ka.Queue.Set(ctx, queue))
	seq := h.U64("sequence")
	vhMust(ka.Sequence.Set(ctx, seq))
	randao := h.Bytes("randao", 32)
	vhMust(ka.Randao.Set(ctx, randao))
	params := types.Params{ElectingPeriod: time.Duration(h.U32("periodSeconds"))*time.Second + time.Second, AcceptProposerTimeout: time.Duration(h.U32("timeoutSeconds")) * time.Second}
	vhMust(ka.Params.Set(ctx, params))
	btcKey := append([]byte{0x02}, h.Bytes("btcKey", 32)...)
	vhMust(ka.Pubkeys.Set(ctx, types.EncodePublicKey(&types.PublicKey{Key: &types.PublicKey_Secp256K1{Secp256K1: btcKey}})))

	var gs *types.GenesisState
	h.Assert(!h.Panics(func() { gs = ExportGenesis(ctx, ka) }), "export-never-panics")
	if gs == nil {
		return
	}
	imported := !h.Panics(func() { InitGenesis(ctx, kb, *gs) })
	h.Assert(imported, "exported-state-re-imports-without-panic")
	if !imported {
		return
	}
	rb, err := kb.Relayer.Get(ctx)
	vhMust(err)
	h.Assert(rb.Epoch == rel.Epoch && rb.Proposer == rel.Proposer && rb.ProposerAccepted == rel.ProposerAccepted && rb.LastElected.Equal(rel.LastElected) && len(rb.Voters) == len(rel.Voters), "relayer-group-restored")
	for i := range rel.Voters {
		if i < len(rb.Voters) {
			h.Assert(rb.Voters[i] == rel.Voters[i], "voter-order-restored")
		}
	}
	for _, r := range recs {
		v, gerr := kb.Voters.Get(ctx, r.addr)
		h.Assert(gerr == nil && v.Status == r.v.Status && bytes.Equal(v.VoteKey, r.v.VoteKey) && bytes.Equal(v.Address, r.v.Address) && v.Height == r.v.Height, "voter-records-restored")
	}
	qb, qerr := kb.Queue.Get(ctx)
	vhMust(qerr)
	h.Assert(len(qb.OnBoarding) == len(queue.OnBoarding) && len(qb.OffBoarding) == len(queue.OffBoarding), "boarding-queues-restored")
	for _, a := range queue.OnBoarding {
		found := false
		for _, b := range qb.OnBoarding {
			found = found || a == b
		}
		h.Assert(found, "on-boarding-queue-restored-as-a-set")
	}
	for _, a := range queue.OffBoarding {
		found := false
		for _, b := range qb.OffBoarding {
			found = found || a == b
		}
		h.Assert(found, "off-boarding-queue-restored-as-a-set")
	}
	sb, _ := kb.Sequence.Peek(ctx)
	rdb, _ := kb.Randao.Get(ctx)
	pb, _ := kb.Params.Get(ctx)
	hk, _ := kb.Pubkeys.Has(ctx, types.EncodePublicKey(&types.PublicKey{Key: &types.PublicKey_Secp256K1{Secp256K1: btcKey}}))
	h.Assert(sb == seq && bytes.Equal(rdb, randao) && pb == params && hk, "sequence-randao-params-keys-restored")
	// a second export equals the first
	var gs2 *types.GenesisState
	h.Assert(!h.Panics(func() { gs2 = ExportGenesis(ctx, kb) }), "second-export-never-panics")
	if gs2 != nil {
		h.Assert(gs2.Sequence == gs.Sequence && len(gs2.Voters) == len(gs.Voters) && len(gs2.Pubkeys) == len(gs.Pubkeys) && bytes.Equal(gs2.Randao, gs.Randao) && gs2.Relayer.Epoch == gs.Relayer.Epoch, "second-export-equals-the-first")
	}
	h.Reach("end")
}
