package keeper

import (
	"bytes"
	"errors"

	goatcrypto "github.com/goatnetwork/goat/pkg/crypto"
	"github.com/goatnetwork/goat/x/relayer/types"
	"github.com/goatnetwork/goat/zzverif/vrt"
)

// refSignDoc: the message a vote must cover, written from the property statement:
// SHA256(chain id ‖ LE64(sequence) ‖ LE64(epoch) ‖ method ‖ proposer ‖ payload).
func refSignDoc(chain string, seq, epoch uint64, method, proposer string, payload []byte) []byte {
	le := func(x uint64) []byte {
		b := make([]byte, 8)
		for i := 0; i < 8; i++ {
			b[i] = byte(x >> (8 * uint(i)))
		}
		return b
	}
	var buf []byte
	buf = append(buf, chain...)
	buf = append(buf, le(seq)...)
	buf = append(buf, le(epoch)...)
	buf = append(buf, method...)
	buf = append(buf, proposer...)
	buf = append(buf, payload...)
	return goatcrypto.SHA256Sum(buf)
}

var vhMembers = []string{"goat1proposer", "goat1voter00", "goat1voter01", "goat1voter02", "goat1voter03", "goat1voter04", "goat1voter05", "goat1voter06", "goat1voter07",
	"goat1voter08", "goat1voter09", "goat1voter10", "goat1voter11"}

// VH_C01_quorum: VerifyProposal accepts only with a genuine two-thirds quorum.
// Signer i = member i (0 = proposer, i>0 = voter i-1) owns BLSKey(i).
func VH_C01_quorum(h *vrt.H) {
	maxN := 4
	if h.Thorough() {
		maxN = 7
	}
	n := h.Choose("nVoters", 0, maxN)
	k, ctx := vhKeeper(h)
	chain := "goat-verif-1"
	ctx = ctx.WithChainID(chain)

	epoch, seq := h.U64("epoch"), h.U64("sequence")
	rel := types.Relayer{Epoch: epoch, Proposer: vhMembers[0], ProposerAccepted: h.Bool("accepted")}
	vhMust(k.Voters.Set(ctx, vhMembers[0], types.Voter{VoteKey: h.BLSKey(0), Status: types.VOTER_STATUS_ACTIVATED}))
	for i := 1; i <= n; i++ {
		rel.Voters = append(rel.Voters, vhMembers[i])
		vhMust(k.Voters.Set(ctx, vhMembers[i], types.Voter{VoteKey: h.BLSKey(i), Status: types.VOTER_STATUS_ACTIVATED}))
	}
	vhMust(k.Relayer.Set(ctx, rel))
	vhMust(k.Sequence.Set(ctx, seq))
	// membership changes waiting for the next election: a voter queued for removal is still a
	// voter (the group, and so the quorum, changes only at the election), a queued newcomer is
	// not one yet. The queue may also be absent (a keeper that has not seen a request yet).
	if h.Choose("queuePresent", 0, 1) == 1 {
		var queue types.VoterQueue
		nOff := h.Choose("votersQueuedForRemoval", 0, 2)
		h.Assume(nOff <= n)
		for i := 0; i < nOff; i++ {
			queue.OffBoarding = append(queue.OffBoarding, vhMembers[1+i])
			vhMust(k.Voters.Set(ctx, vhMembers[1+i], types.Voter{VoteKey: h.BLSKey(1 + i), Status: types.VOTER_STATUS_OFF_BOARDING}))
		}
		if h.Choose("newcomerQueued", 0, 1) == 1 {
			queue.OnBoarding = append(queue.OnBoarding, vhMembers[n+1])
			vhMust(k.Voters.Set(ctx, vhMembers[n+1], types.Voter{VoteKey: h.BLSKey(n + 1), Status: types.VOTER_STATUS_ON_BOARDING}))
		}
		vhMust(k.Queue.Set(ctx, queue))
	}

	// who really signed, and what
	signed := make([]bool, n+1)
	nSigned := 0
	for i := range signed {
		signed[i] = h.Bool(h.Name("signed", i))
		nSigned += h.B2I(signed[i])
	}
	method := "Bitcoin/" + h.Str("method", 4)
	payload := h.Bytes("payload", 8)
	reqProposer := vhMembers[h.Choose("reqProposer", 0, 1)]
	vEpoch, vSeq := h.U64("voteEpoch"), h.U64("voteSequence")
	// what they signed: either a genuine sign-doc over fields of the harness' choosing, or arbitrary bytes
	genuine := h.Bool("signedGenuineDoc")
	m := h.PickBytes(genuine,
		refSignDoc(chain, h.U64("signedSeq"), h.U64("signedEpoch"), method, vhMembers[h.Choose("signedProposer", 0, 1)], payload),
		h.Bytes("signedMsg", 32))
	// an arbitrary message is any 32 bytes other than the correct document (the correct one is
	// covered by the genuine branch with matching fields; a free value cannot be made to hit
	// a real SHA-256 output, so that case could not be replayed)
	h.Assume(h.Either(genuine, !bytes.Equal(m, refSignDoc(chain, seq, epoch, method, rel.Proposer, payload))))
	sig := h.AggSig(signed, m)
	if h.Choose("garbageSig", 0, 1) == 1 {
		sig = h.Bytes("sigBytes", 48)
	}
	bmLen := 8 * h.Choose("bitmapWords", 0, 4)
	bitmap := h.Bytes("bitmap", bmLen)
	req := &vhVoteMsg{Proposer: reqProposer, Method: method, Payload: payload,
		Vote: &types.Votes{Sequence: vSeq, Epoch: vEpoch, Voters: bitmap, Signature: sig}}

	var seenDoc []byte
	gotSeq, err := k.VerifyProposal(ctx, req, func(doc []byte) error { seenDoc = doc; return nil })
	h.NoteBool("accepted", err == nil)
	h.Log("err", err)

	post, gerr := k.Relayer.Get(ctx)
	vhMust(gerr)
	postSeq, perr := k.Sequence.Peek(ctx)
	vhMust(perr)
	if err != nil {
		h.Assert(post.ProposerAccepted == rel.ProposerAccepted && post.Epoch == rel.Epoch && post.Proposer == rel.Proposer && len(post.Voters) == n && postSeq == seq,
			"rejected-proposal-changes-no-state")
		h.Reach("rejected")
		return
	}
	// marks: every set bit denotes a current voter (position < n)
	marks, outside, markedSigned := 0, false, true
	for pos := 0; pos < 8*bmLen; pos++ {
		bit := bitmap[pos/8]&(1<<uint(pos%8)) != 0
		marks += h.B2I(bit)
		if pos >= n {
			outside = h.Either(outside, bit)
		} else {
			markedSigned = h.Both(markedSigned, h.Implies(bit, signed[pos+1]))
		}
	}
	h.Assert(markedSigned, "marked-voter-really-signed")
	h.Assert(!outside, "no-mark-outside-voter-list")
	h.Assert(signed[0], "proposer-signed")
	h.Assert(nSigned == marks+1, "signers-are-exactly-proposer-plus-marked")
	h.Assert(3*nSigned >= 2*(n+1), "two-thirds-quorum") // nSigned >= ceil(2(n+1)/3) in integers
	h.Assert(vSeq == seq && vEpoch == epoch && reqProposer == rel.Proposer, "vote-for-current-sequence-epoch-proposer")
	want := refSignDoc(chain, seq, epoch, method, rel.Proposer, payload)
	h.Assert(bytes.Equal(seenDoc, want), "verified-doc-binds-chain-seq-epoch-method-proposer-payload")
	h.Assert(bytes.Equal(m, want), "signers-signed-exactly-that-doc")
	h.Assert(gotSeq == seq, "returns-current-sequence")
	h.Assert(post.ProposerAccepted, "proposer-accepted-after-success")
	h.Reach("accepted")
}

// VH_C01_bitmap_len: a bitmap whose length is not a whole number of 64-bit words makes
// the bitmap library panic; the proposal is not accepted (baseapp turns it into a failed tx).
func VH_C01_bitmap_len(h *vrt.H) {
	k, ctx := vhKeeper(h)
	rel := types.Relayer{Proposer: vhMembers[0], Voters: []string{vhMembers[1]}}
	vhMust(k.Voters.Set(ctx, vhMembers[0], types.Voter{VoteKey: h.BLSKey(0), Status: types.VOTER_STATUS_ACTIVATED}))
	vhMust(k.Voters.Set(ctx, vhMembers[1], types.Voter{VoteKey: h.BLSKey(1), Status: types.VOTER_STATUS_ACTIVATED}))
	vhMust(k.Relayer.Set(ctx, rel))
	l := h.Choose("bitmapLen", 1, 33)
	req := &vhVoteMsg{Proposer: vhMembers[0], Method: "m", Payload: nil,
		Vote: &types.Votes{Voters: h.Bytes("bitmap", l), Signature: h.AggSig([]bool{true, true}, h.Bytes("msg", 32))}}
	var err error
	p := h.Panics(func() { _, err = k.VerifyProposal(ctx, req) })
	if l%8 != 0 {
		h.Assert(p || err != nil, "ragged-bitmap-never-accepted")
	}
	h.Reach("end")
}

// VH_C01_threshold: Threshold() == ceil(2(n+1)/3) in exact integer arithmetic for every
// group size the 256-bit vote bitmap can address.
func VH_C01_threshold(h *vrt.H) {
	for n := 0; n <= 256; n++ {
		r := types.Relayer{Voters: make([]string, n)}
		h.Assert(r.Threshold() == (2*(n+1)+2)/3, "threshold-is-integer-ceiling")
	}
	h.Reach("end")
}

var _ = errors.New
