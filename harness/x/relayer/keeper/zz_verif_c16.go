package keeper

import (
	"context"
	"time"

	cryptotypes "github.com/cosmos/cosmos-sdk/crypto/types"
	sdk "github.com/cosmos/cosmos-sdk/types"
	"github.com/ethereum/go-ethereum/common"
	"github.com/ethereum/go-ethereum/core/types/goattypes"
	goatcrypto "github.com/goatnetwork/goat/pkg/crypto"
	"github.com/goatnetwork/goat/x/relayer/types"
	"github.com/goatnetwork/goat/zzverif/vrt"
)

// ---- bounded universe of relayer addresses ----

func vhRBytes(i int) []byte {
	a := make([]byte, 20)
	a[0], a[19] = 0xE0, byte(i+1)
	return a
}

func vhRStr(k Keeper, i int) string {
	s, err := k.AddrCodec.BytesToString(vhRBytes(i))
	vhMust(err)
	return s
}

// account keeper stub: which addresses already have an account is the harness' choice
type vhAccount struct{ pk cryptotypes.PubKey }

func (a *vhAccount) Reset()                                {}
func (a *vhAccount) String() string                        { return "vhAccount" }
func (a *vhAccount) ProtoMessage()                         {}
func (a *vhAccount) GetAddress() sdk.AccAddress            { return nil }
func (a *vhAccount) SetAddress(sdk.AccAddress) error       { return nil }
func (a *vhAccount) GetPubKey() cryptotypes.PubKey         { return a.pk }
func (a *vhAccount) SetPubKey(pk cryptotypes.PubKey) error { a.pk = pk; return nil }
func (a *vhAccount) GetAccountNumber() uint64              { return 0 }
func (a *vhAccount) SetAccountNumber(uint64) error         { return nil }
func (a *vhAccount) GetSequence() uint64                   { return 0 }
func (a *vhAccount) SetSequence(uint64) error              { return nil }

type vhAccounts struct {
	has     bool
	created int
}

func (k *vhAccounts) GetAccount(context.Context, sdk.AccAddress) sdk.AccountI { return nil }
func (k *vhAccounts) HasAccount(context.Context, sdk.AccAddress) bool         { return k.has }
func (k *vhAccounts) SetAccount(context.Context, sdk.AccountI)                { k.created++ }
func (k *vhAccounts) NewAccountWithAddress(context.Context, sdk.AccAddress) sdk.AccountI {
	return &vhAccount{}
}

// vhRelState: arbitrary relayer state satisfying Inv_R over members 0..n (0 = proposer).
type vhRelState struct {
	N         int      // voters
	Members   []string // proposer followed by voters
	OffQueued []bool   // member i is queued for removal
	OnQueue   []string
	OffExtra  []string // queued for removal without ever having been a member (see vhBuildRel)
	Rel       types.Relayer
}

func vhBuildRel(h *vrt.H, k Keeper, ctx sdk.Context, maxVoters, maxOn int) *vhRelState {
	st := &vhRelState{N: h.Choose("nVoters", 0, maxVoters)}
	rel := types.Relayer{Epoch: h.U64("epoch"), ProposerAccepted: h.Bool("accepted"), LastElected: time.Unix(int64(h.U32("lastElected")), 0).UTC()}
	var queue types.VoterQueue
	nOff := 0
	for i := 0; i <= st.N; i++ {
		name := vhRStr(k, i)
		st.Members = append(st.Members, name)
		off := h.Choose(h.Name("offBoarding", i), 0, 1) == 1
		st.OffQueued = append(st.OffQueued, off)
		status := types.VOTER_STATUS_ACTIVATED
		if off {
			status = types.VOTER_STATUS_OFF_BOARDING
			queue.OffBoarding = append(queue.OffBoarding, name)
			nOff++
		}
		vhMust(k.Voters.Set(ctx, name, types.Voter{Address: vhRBytes(i), VoteKey: h.BLSKey(i), Status: status}))
		if i == 0 {
			rel.Proposer = name
		} else {
			rel.Voters = append(rel.Voters, name)
		}
	}
	h.Assume(st.N+1-nOff >= 1) // Inv_R: removals never empty the group
	// NewVoter queues a confirmed pending voter whose address already had an account for removal
	// although it never was a member: such an entry is part of every reachable state description
	if h.Choose("conflictingAccountQueuedForRemoval", 0, 1) == 1 {
		name := vhRStr(k, 40)
		st.OffExtra = append(st.OffExtra, name)
		if h.Choose("conflictingEntryFirst", 0, 1) == 1 {
			queue.OffBoarding = append([]string{name}, queue.OffBoarding...)
		} else {
			queue.OffBoarding = append(queue.OffBoarding, name)
		}
		vhMust(k.Voters.Set(ctx, name, types.Voter{Address: vhRBytes(40), VoteKey: h.BLSKey(40), Status: types.VOTER_STATUS_OFF_BOARDING}))
	}
	nOn := h.Choose("nOnBoarding", 0, maxOn)
	for j := 0; j < nOn; j++ {
		name := vhRStr(k, 10+j)
		st.OnQueue = append(st.OnQueue, name)
		queue.OnBoarding = append(queue.OnBoarding, name)
		vhMust(k.Voters.Set(ctx, name, types.Voter{Address: vhRBytes(10 + j), VoteKey: h.BLSKey(10 + j), Status: types.VOTER_STATUS_ON_BOARDING}))
	}
	st.Rel = rel
	vhMust(k.Relayer.Set(ctx, rel))
	vhMust(k.Queue.Set(ctx, queue))
	vhMust(k.Randao.Set(ctx, h.Bytes("randao", 32)))
	return st
}

// vhCheckInvR asserts the relayer-group invariant on the current store.
func vhCheckInvR(h *vrt.H, k Keeper, ctx sdk.Context) {
	rel, err := k.Relayer.Get(ctx)
	vhMust(err)
	q, qerr := k.Queue.Get(ctx)
	vhMust(qerr)
	members := append([]string{rel.Proposer}, rel.Voters...)
	off := 0
	for i, m := range members {
		for j := 0; j < i; j++ {
			h.Assert(members[j] != m, "invR-members-distinct-and-proposer-not-a-voter")
		}
		v, verr := k.Voters.Get(ctx, m)
		h.Assert(verr == nil, "invR-every-member-has-a-voter-record")
		if verr == nil {
			h.Assert(v.Status == types.VOTER_STATUS_ACTIVATED || v.Status == types.VOTER_STATUS_OFF_BOARDING, "invR-member-is-activated-or-awaiting-removal")
			queued := false
			for _, o := range q.OffBoarding {
				if o == m {
					queued = true
				}
			}
			h.Assert(queued == (v.Status == types.VOTER_STATUS_OFF_BOARDING), "invR-off-boarding-status-iff-queued")
			if queued {
				off++
			}
		}
	}
	h.Assert(rel.Proposer != "", "invR-exactly-one-proposer")
	h.Assert(len(members)-off >= 1, "invR-removals-never-empty-the-group")
	for _, o := range q.OnBoarding {
		v, verr := k.Voters.Get(ctx, o)
		h.Assert(verr == nil && v.Status == types.VOTER_STATUS_ON_BOARDING, "invR-on-boarding-queue-entries-are-on-boarding")
		for _, m := range members {
			h.Assert(m != o, "invR-queued-voter-is-not-yet-a-member")
		}
	}
}

// VH_C16_endblock: elections are timely, never fail, increment the epoch and keep the group well-formed.
func VH_C16_endblock(h *vrt.H) {
	maxV := 2
	if h.Thorough() {
		maxV = 3
	}
	k, ctx := vhKeeper(h)
	st := vhBuildRel(h, k, ctx, maxV, 1)
	period := time.Duration(h.U32("periodSeconds")) * time.Second
	timeout := time.Duration(h.U32("timeoutSeconds")) * time.Second
	vhMust(k.Params.Set(ctx, types.Params{ElectingPeriod: period, AcceptProposerTimeout: timeout}))
	now := time.Unix(int64(h.U32("now")), 0).UTC()
	ctx = ctx.WithBlockTime(now)
	err := k.EndBlocker(ctx)
	h.Assert(err == nil, "relayer-endblocker-never-fails")
	if err != nil {
		h.Log("err", err)
		return
	}
	post, gerr := k.Relayer.Get(ctx)
	vhMust(gerr)
	elapsed := now.Sub(st.Rel.LastElected)
	due := elapsed >= period || (!st.Rel.ProposerAccepted && timeout != 0 && elapsed >= timeout)
	if due {
		h.Assert(post.Epoch == st.Rel.Epoch+1, "election-increments-epoch")
		h.Assert(post.LastElected.Equal(now), "election-records-time")
		q, qerr := k.Queue.Get(ctx)
		vhMust(qerr)
		h.Assert(len(q.OnBoarding) == 0 && len(q.OffBoarding) == 0, "election-applies-and-empties-queues")
		// membership = old members - off-boarded + on-boarded
		members := append([]string{post.Proposer}, post.Voters...)
		want := 0
		for i, m := range st.Members {
			if !st.OffQueued[i] {
				want++
				found := false
				for _, x := range members {
					if x == m {
						found = true
					}
				}
				h.Assert(found, "remaining-member-kept")
			} else {
				_, verr := k.Voters.Get(ctx, m)
				h.Assert(verr != nil, "removed-member-record-deleted")
			}
		}
		for _, o := range st.OffExtra {
			_, verr := k.Voters.Get(ctx, o)
			h.Assert(verr != nil, "removed-non-member-record-deleted")
		}
		for _, o := range st.OnQueue {
			want++
			v, verr := k.Voters.Get(ctx, o)
			h.Assert(verr == nil && v.Status == types.VOTER_STATUS_ACTIVATED, "joined-voter-activated")
		}
		h.Assert(len(members) == want, "membership-is-old-minus-removed-plus-joined")
		h.Reach("elected")
	} else {
		h.Assert(post.Epoch == st.Rel.Epoch && post.Proposer == st.Rel.Proposer && len(post.Voters) == st.N && post.ProposerAccepted == st.Rel.ProposerAccepted && post.LastElected.Equal(st.Rel.LastElected),
			"no-election-before-it-is-due")
		h.Reach("not-due")
	}
	vhCheckInvR(h, k, ctx)
}

// VH_C16_request: add/remove requests from the execution layer keep the group well-formed;
// a new address only becomes a PENDING record (no membership), removals that would empty
// the group are ignored.
func VH_C16_request(h *vrt.H) {
	k, ctx := vhKeeper(h)
	st := vhBuildRel(h, k, ctx, 2, 1)
	ctx = ctx.WithBlockHeight(int64(h.U32("height")))
	var req goattypes.RelayerRequests
	nAdd := h.Choose("nAdds", 0, 2)
	for i := 0; i < nAdd; i++ {
		who := h.Choose(h.Name("addWho", i), 0, 3) // 0..2 existing members, 3 = a new address
		a := &goattypes.AddVoterRequest{Voter: common.BytesToAddress(vhRBytes([]int{0, 1, 2, 20}[who])), Pubkey: common.BytesToHash(h.Bytes(h.Name("keyHash", i), 32))}
		req.Adds = append(req.Adds, a)
	}
	nRm := h.Choose("nRemoves", 0, 2)
	for i := 0; i < nRm; i++ {
		who := h.Choose(h.Name("rmWho", i), 0, 4) // members, the queued joiner, or an unknown address
		req.Removes = append(req.Removes, &goattypes.RemoveVoterRequest{Voter: common.BytesToAddress(vhRBytes([]int{0, 1, 2, 10, 30}[who]))})
	}
	err := k.ProcessRelayerRequest(ctx, req)
	h.Assert(err == nil, "relayer-requests-never-fail")
	if err != nil {
		return
	}
	post, gerr := k.Relayer.Get(ctx)
	vhMust(gerr)
	h.Assert(post.Proposer == st.Rel.Proposer && len(post.Voters) == st.N && post.Epoch == st.Rel.Epoch, "requests-do-not-change-membership-before-an-election")
	vhCheckInvR(h, k, ctx)
	h.Reach("end")
}

// VH_C16_newvoter: a voter is queued for joining only when the current proposer presents
// valid proofs of possession of both keys over the registration document.
func VH_C16_newvoter(h *vrt.H) {
	acc := &vhAccounts{has: h.Bool("hasAccount")}
	k := NewKeeper(h.Codec(), h.AddressCodec(), h.StoreService(types.StoreKey), acc, h.Logger())
	ctx := h.Ctx().WithChainID("goat-verif-1")
	st := vhBuildRel(h, k, ctx, 1, 0)
	const signer = 7
	senders := []string{st.Members[0], vhRStr(k, 5)} // the proposer or somebody else
	txKey, blsKey := h.TxKey(signer), h.BLSKey(signer)
	addrRaw := goatcrypto.Hash160Sum(txKey)
	addrStr, cerr := k.AddrCodec.BytesToString(addrRaw)
	vhMust(cerr)
	regHeight := h.U64("registeredHeight")
	keyHash := vhPick(h, h.Bool("registeredGenuineKeyHash"), goatcrypto.SHA256Sum(blsKey), "registeredKeyHash")
	regStatus := types.VoterStatus(h.Choose("registeredStatus", 0, 4))
	if regStatus != 0 {
		vhMust(k.Voters.Set(ctx, addrStr, types.Voter{Address: addrRaw, VoteKey: keyHash, Status: regStatus, Height: regHeight}))
	}
	// what the candidate really signed: the genuine registration document over fields of the
	// harness' choosing, with each key
	docFor := func(pfx string) []byte {
		reg := types.NewOnBoardingVoterRequest(h.U64(pfx+"Height"), addrRaw, vhPick(h, h.Bool(pfx+"GenuineHash"), goatcrypto.SHA256Sum(blsKey), pfx+"Hash"))
		return types.VoteSignDoc(reg.MethodName(), []string{"goat-verif-1", "other-chain-9"}[h.Choose(pfx+"Chain", 0, 1)], senders[h.Choose(pfx+"Proposer", 0, 1)], 0, h.U64(pfx+"Epoch"), reg.SignDoc())
	}
	txDoc, blsDoc := docFor("txSigned"), docFor("blsSigned")
	req := &types.MsgNewVoterRequest{
		Proposer:         senders[h.Choose("sender", 0, 1)],
		VoterBlsKey:      blsKey,
		VoterTxKey:       txKey,
		VoterTxKeyProof:  h.TxSig(signer, txDoc),
		VoterBlsKeyProof: h.BLSSig(signer, blsDoc),
	}
	_, err := (msgServer{Keeper: k}).NewVoter(ctx, req)
	h.NoteBool("ok", err == nil)
	if err != nil {
		v, verr := k.Voters.Get(ctx, addrStr)
		if regStatus != 0 {
			h.Assert(verr == nil && v.Status == regStatus, "rejected-registration-changes-no-record")
		}
		h.Reach("rejected")
		return
	}
	want := types.VoteSignDoc("Relayer/NewVoter", "goat-verif-1", st.Rel.Proposer, 0, st.Rel.Epoch,
		types.NewOnBoardingVoterRequest(regHeight, addrRaw, goatcrypto.SHA256Sum(blsKey)).SignDoc())
	h.Assert(req.Proposer == st.Rel.Proposer, "only-the-current-proposer-registers-voters")
	h.Assert(regStatus == types.VOTER_STATUS_PENDING, "only-a-pending-record-can-join")
	h.Assert(string(keyHash) == string(goatcrypto.SHA256Sum(blsKey)), "vote-key-matches-registered-hash")
	h.Assert(string(txDoc) == string(want), "tx-key-proof-over-this-chain-epoch-registration")
	h.Assert(string(blsDoc) == string(want), "bls-key-proof-over-this-chain-epoch-registration")
	v, verr := k.Voters.Get(ctx, addrStr)
	vhMust(verr)
	q, qerr := k.Queue.Get(ctx)
	vhMust(qerr)
	post, gerr := k.Relayer.Get(ctx)
	vhMust(gerr)
	h.Assert(len(post.Voters) == st.N && post.Proposer == st.Rel.Proposer, "joining-voter-is-not-a-member-before-the-election")
	h.Assert(string(v.VoteKey) == string(blsKey), "record-holds-the-proven-vote-key")
	if acc.has {
		h.Assert(v.Status == types.VOTER_STATUS_OFF_BOARDING && len(q.OffBoarding) > 0 && q.OffBoarding[len(q.OffBoarding)-1] == addrStr, "conflicting-account-is-queued-for-removal")
	} else {
		h.Assert(v.Status == types.VOTER_STATUS_ON_BOARDING && len(q.OnBoarding) == 1 && q.OnBoarding[0] == addrStr, "voter-queued-for-the-next-election")
	}
	h.Reach("registered")
}
