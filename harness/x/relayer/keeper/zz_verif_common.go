package keeper

import (
	"bytes"

	sdk "github.com/cosmos/cosmos-sdk/types"
	"github.com/goatnetwork/goat/x/relayer/types"
	"github.com/goatnetwork/goat/zzverif/vrt"
)

func vhKeeper(h *vrt.H) (Keeper, sdk.Context) {
	k := NewKeeper(h.Codec(), h.AddressCodec(), h.StoreService(types.StoreKey), nil, h.Logger())
	return k, h.Ctx()
}

func vhMust(err error) {
	if err != nil {
		panic("vh: harness state construction failed: " + err.Error())
	}
}

// vhVoteMsg is a voted request with an arbitrary method name and payload.
type vhVoteMsg struct {
	Proposer string
	Vote     *types.Votes
	Method   string
	Payload  []byte
}

func (m *vhVoteMsg) GetProposer() string   { return m.Proposer }
func (m *vhVoteMsg) GetVote() *types.Votes { return m.Vote }
func (m *vhVoteMsg) MethodName() string    { return m.Method }
func (m *vhVoteMsg) VoteSigDoc() []byte    { return m.Payload }

// vhPick returns the genuine value when the flag is set and otherwise an arbitrary value
// DIFFERENT from it (a free value cannot be made to hit a real hash output natively; the
// genuine case is covered by its own branch).
func vhPick(h *vrt.H, genuine bool, real []byte, name string) []byte {
	arb := h.Bytes(name, len(real))
	h.Assume(h.Either(genuine, !bytes.Equal(arb, real)))
	return h.PickBytes(genuine, real, arb)
}
