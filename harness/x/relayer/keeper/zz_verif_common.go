package keeper

import (
	sdk "github.com/cosmos/cosmos-sdk/types"
	"github.com/goatnetwork/goat/x/relayer/types"
	"github.com/goatnetwork/goat/zzverif/vrt"
)

func vhKeeper(h *vrt.H) (Keeper, sdk.Context) {
	k := NewKeeper(h.Codec(), h.AddressCodec(), h.StoreService(types.StoreKey), nil, h.Logger())
	return k, h.Ctx()
}

func vhMust(err error) {
	if err != nil {
		panic("vh: harness state construction failed: " + err.Error())
	}
}

// vhVoteMsg is a voted request with an arbitrary method name and payload.
type vhVoteMsg struct {
	Proposer string
	Vote     *types.Votes
	Method   string
	Payload  []byte
}

func (m *vhVoteMsg) GetProposer() string   { return m.Proposer }
func (m *vhVoteMsg) GetVote() *types.Votes { return m.Vote }
func (m *vhVoteMsg) MethodName() string    { return m.Method }
func (m *vhVoteMsg) VoteSigDoc() []byte    { return m.Payload }
