package keeper

import (
	"bytes"
	"time"

	"github.com/ethereum/go-ethereum/common"
	"github.com/ethereum/go-ethereum/core/types/goattypes"
	goatcrypto "github.com/goatnetwork/goat/pkg/crypto"
	"github.com/goatnetwork/goat/x/relayer/types"
	"github.com/goatnetwork/goat/zzverif/vrt"
)

// VH_C02_single_use: after a vote was accepted and consumed (sequence advanced, randao
// updated - what every voted handler does), no request is accepted unless it carries a NEW
// quorum signature over the document for the NEXT sequence: the consumed vote, or any vote
// signed for another sequence/epoch/proposer/method/payload/chain, is refused.
func VH_C02_single_use(h *vrt.H) {
	k, ctx := vhKeeper(h)
	chain := "goat-verif-1"
	ctx = ctx.WithChainID(chain)
	epoch, seq := h.U64("epoch"), h.U64("sequence")
	h.Assume(seq < 1<<63)
	rel := types.Relayer{Epoch: epoch, Proposer: vhMembers[0], Voters: []string{vhMembers[1]}, ProposerAccepted: h.Bool("proposerAccepted")}
	vhMust(k.Voters.Set(ctx, vhMembers[0], types.Voter{VoteKey: h.BLSKey(0), Status: types.VOTER_STATUS_ACTIVATED}))
	vhMust(k.Voters.Set(ctx, vhMembers[1], types.Voter{VoteKey: h.BLSKey(1), Status: types.VOTER_STATUS_ACTIVATED}))
	vhMust(k.Relayer.Set(ctx, rel))
	vhMust(k.Sequence.Set(ctx, seq))
	randao0 := h.Bytes("randao", 32)
	vhMust(k.Randao.Set(ctx, randao0))
	both := []bool{true, true}
	bitmap := []byte{1, 0, 0, 0, 0, 0, 0, 0}

	// first proposal: genuine and accepted
	method1, payload1 := "Bitcoin/"+h.Str("method1", 4), h.Bytes("payload1", 8)
	sig1 := h.AggSig(both, refSignDoc(chain, seq, epoch, method1, rel.Proposer, payload1))
	req1 := &vhVoteMsg{Proposer: rel.Proposer, Method: method1, Payload: payload1, Vote: &types.Votes{Sequence: seq, Epoch: epoch, Voters: bitmap, Signature: sig1}}
	got, err := k.VerifyProposal(ctx, req1)
	h.Assert(err == nil && got == seq, "genuine-quorum-vote-is-accepted")
	if err != nil {
		return
	}
	vhMust(k.SetProposalSeq(ctx, got+1))
	vhMust(k.UpdateRandao(ctx, req1))
	r1, rerr := k.Randao.Get(ctx)
	vhMust(rerr)
	h.Assert(bytes.Equal(r1, goatcrypto.SHA256Sum(append(append([]byte{}, randao0...), sig1...))), "randao-accumulates-the-accepted-signature")
	s1, _ := k.Sequence.Peek(ctx)
	h.Assert(s1 == seq+1, "sequence-advanced-by-one")
	// a first voted proposal of a newly elected proposer also accepts the proposer, nothing else
	rel1, rgerr := k.Relayer.Get(ctx)
	vhMust(rgerr)
	h.Assert(rel1.ProposerAccepted && rel1.Epoch == epoch && rel1.Proposer == rel.Proposer && len(rel1.Voters) == 1, "accepted-proposal-leaves-the-group-and-accepts-the-proposer")

	// second proposal: anything. Its signature is the consumed one or a new quorum signature
	// over a genuine document with fields of the harness' choosing.
	reuse := h.Choose("reuseConsumedSignature", 0, 1) == 1
	method2, payload2 := "Bitcoin/"+h.Str("method2", 4), h.Bytes("payload2", 8)
	sSeq, sEpoch := h.U64("signedSeq2"), h.U64("signedEpoch2")
	sChain := []string{chain, "other-chain-9"}[h.Choose("signedChain2", 0, 1)]
	sProposer := vhMembers[h.Choose("signedProposer2", 0, 1)]
	sMethod := "Bitcoin/" + h.Str("signedMethod2", 4)
	sPayload := h.Bytes("signedPayload2", 8)
	sig2 := sig1
	if !reuse {
		sig2 = h.AggSig(both, refSignDoc(sChain, sSeq, sEpoch, sMethod, sProposer, sPayload))
	}
	req2 := &vhVoteMsg{Proposer: vhMembers[h.Choose("reqProposer2", 0, 1)], Method: method2, Payload: payload2,
		Vote: &types.Votes{Sequence: h.U64("voteSeq2"), Epoch: h.U64("voteEpoch2"), Voters: bitmap, Signature: sig2}}
	_, err2 := k.VerifyProposal(ctx, req2)
	h.NoteBool("secondAccepted", err2 == nil)
	if err2 != nil {
		s2, _ := k.Sequence.Peek(ctx)
		r2, _ := k.Randao.Get(ctx)
		h.Assert(s2 == seq+1 && bytes.Equal(r2, r1), "rejected-proposal-leaves-sequence-and-randao")
		h.Reach("second-rejected")
		return
	}
	h.Assert(!reuse, "a-consumed-vote-is-never-accepted-again")
	h.Assert(req2.Vote.Sequence == seq+1 && req2.Vote.Epoch == epoch && req2.Proposer == rel.Proposer, "second-vote-is-for-the-next-sequence")
	if !reuse {
		h.Assert(sSeq == seq+1 && sEpoch == epoch && sChain == chain && sProposer == rel.Proposer && sMethod == method2 && bytes.Equal(sPayload, payload2),
			"a-vote-signed-for-another-context-is-never-accepted")
	}
	h.Reach("second-accepted")
}

// VH_C02_frame: the sequence and the randomness accumulator are changed by nothing but the
// voted-proposal path: elections, membership requests and proposer acceptance leave them alone.
func VH_C02_frame(h *vrt.H) {
	k, ctx := vhKeeper(h)
	st := vhBuildRel(h, k, ctx, 2, 1)
	seq := h.U64("sequence")
	vhMust(k.Sequence.Set(ctx, seq))
	r0, _ := k.Randao.Get(ctx)
	vhMust(k.Params.Set(ctx, types.Params{ElectingPeriod: time.Duration(h.U32("periodSeconds")) * time.Second, AcceptProposerTimeout: time.Duration(h.U32("timeoutSeconds")) * time.Second}))
	ctx = ctx.WithBlockTime(time.Unix(int64(h.U32("now")), 0).UTC())
	switch h.Choose("op", 0, 2) {
	case 0:
		_ = k.EndBlocker(ctx)
	case 1:
		_ = k.ProcessRelayerRequest(ctx, goattypes.RelayerRequests{
			Adds:    []*goattypes.AddVoterRequest{{Voter: common.BytesToAddress(vhRBytes(20)), Pubkey: common.BytesToHash(h.Bytes("keyHash", 32))}},
			Removes: []*goattypes.RemoveVoterRequest{{Voter: common.BytesToAddress(vhRBytes(h.Choose("rmWho", 0, 2)))}}})
	case 2:
		_, _ = (msgServer{Keeper: k}).AcceptProposer(ctx, &types.MsgAcceptProposerRequest{Proposer: st.Members[0], Epoch: h.U64("acceptEpoch")})
	}
	s1, _ := k.Sequence.Peek(ctx)
	r1, _ := k.Randao.Get(ctx)
	h.Assert(s1 == seq && bytes.Equal(r0, r1), "non-voted-paths-never-touch-sequence-or-randao")
	h.Reach("end")
}
