package types

import (
	"bytes"

	relayer "github.com/goatnetwork/goat/x/relayer/types"
	"github.com/goatnetwork/goat/zzverif/vrt"
)

// VH_C01_sigdoc_binds_payload: the signed payload of each voted action determines every
// field of the action: two messages of the same kind whose VoteSigDoc bytes are equal agree
// on all the fields that take effect (ids, fee, transaction, block number and hashes, key).
// So a quorum signature cannot be reused for a payload the voters did not see.
func VH_C01_sigdoc_binds_payload(h *vrt.H) {
	kind := h.Choose("message", 0, 4)
	same := func(doc1, doc2 []byte, fieldsEqual bool, label string) {
		if bytes.Equal(doc1, doc2) {
			h.Assert(fieldsEqual, label)
			h.Reach("same-doc")
		} else {
			h.Reach("different-doc")
		}
	}
	switch kind {
	case 0:
		n := h.Choose("nIds", 1, 2)
		mk := func(p string) *MsgProcessWithdrawal {
			m := &MsgProcessWithdrawal{TxFee: h.U64(p + "fee"), NoWitnessTx: h.Bytes(p+"tx", 40)}
			for i := 0; i < n; i++ {
				m.Id = append(m.Id, h.U64(h.Name(p+"id", i)))
			}
			return m
		}
		a, b := mk("a_"), mk("b_")
		eq := a.TxFee == b.TxFee && bytes.Equal(a.NoWitnessTx, b.NoWitnessTx)
		for i := 0; i < n; i++ {
			eq = h.Both(eq, a.Id[i] == b.Id[i])
		}
		same(a.VoteSigDoc(), b.VoteSigDoc(), eq, "process-withdrawal-doc-binds-ids-fee-and-transaction")
		h.Assert(a.MethodName() != (&MsgReplaceWithdrawal{}).MethodName() && a.MethodName() != (&MsgNewConsolidation{}).MethodName(), "method-names-distinct")
	case 1:
		mk := func(p string) *MsgReplaceWithdrawal {
			return &MsgReplaceWithdrawal{Pid: h.U64(p + "pid"), NewTxFee: h.U64(p + "fee"), NewNoWitnessTx: h.Bytes(p+"tx", 40)}
		}
		a, b := mk("a_"), mk("b_")
		same(a.VoteSigDoc(), b.VoteSigDoc(), a.Pid == b.Pid && a.NewTxFee == b.NewTxFee && bytes.Equal(a.NewNoWitnessTx, b.NewNoWitnessTx), "replace-withdrawal-doc-binds-pid-fee-and-transaction")
	case 2:
		n := h.Choose("nHashes", 0, 2)
		mk := func(p string) *MsgNewBlockHashes {
			m := &MsgNewBlockHashes{StartBlockNumber: h.U64(p + "start")}
			for i := 0; i < n; i++ {
				m.BlockHash = append(m.BlockHash, h.Bytes(h.Name(p+"hash", i), 32))
			}
			return m
		}
		a, b := mk("a_"), mk("b_")
		eq := a.StartBlockNumber == b.StartBlockNumber
		for i := 0; i < n; i++ {
			eq = h.Both(eq, bytes.Equal(a.BlockHash[i], b.BlockHash[i]))
		}
		same(a.VoteSigDoc(), b.VoteSigDoc(), eq, "block-hashes-doc-binds-start-and-hashes")
	case 3:
		mk := func(p string) *MsgNewPubkey {
			if h.Choose(p+"keyType", 0, 1) == 1 {
				return &MsgNewPubkey{Pubkey: &relayer.PublicKey{Key: &relayer.PublicKey_Schnorr{Schnorr: h.Bytes(p+"schnorr", 32)}}}
			}
			return &MsgNewPubkey{Pubkey: &relayer.PublicKey{Key: &relayer.PublicKey_Secp256K1{Secp256K1: h.Bytes(p+"secp", 33)}}}
		}
		a, b := mk("a_"), mk("b_")
		eq := bytes.Equal(a.Pubkey.GetSecp256K1(), b.Pubkey.GetSecp256K1()) && bytes.Equal(a.Pubkey.GetSchnorr(), b.Pubkey.GetSchnorr())
		same(a.VoteSigDoc(), b.VoteSigDoc(), eq, "new-key-doc-binds-key-type-and-bytes")
	case 4:
		a := &MsgNewConsolidation{NoWitnessTx: h.Bytes("a_tx", 40)}
		b := &MsgNewConsolidation{NoWitnessTx: h.Bytes("b_tx", 40)}
		same(a.VoteSigDoc(), b.VoteSigDoc(), bytes.Equal(a.NoWitnessTx, b.NoWitnessTx), "consolidation-doc-binds-the-transaction")
	}
}
