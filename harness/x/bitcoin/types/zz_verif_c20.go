package types

import "github.com/goatnetwork/goat/zzverif/vrt"

// InvP is the safe-bounds invariant of the bridge parameters (property C20):
// tax rate below 100 %, minimum deposit at least the dust limit, confirmation depth >= 1.
func InvP(p Params) bool {
	return p.DepositTaxRate < MaxTaxBP && p.MinDepositAmount >= DustTxoutAmount && p.ConfirmationNumber >= 1
}

// VH_C20_validate: base case. Parameters admitted by genesis validation satisfy InvP.
func VH_C20_validate(h *vrt.H) {
	names := []string{"regtest", "mainnet", "testnet3", "signet", "nosuchnet", ""}
	p := Params{
		NetworkName:        names[h.Choose("network", 0, len(names)-1)],
		ConfirmationNumber: h.U64("confirmations"),
		MinDepositAmount:   h.U64("minDeposit"),
		DepositMagicPrefix: h.Bytes("magic", h.Choose("magicLen", 3, 5)),
		DepositTaxRate:     h.U64("rate"),
		MaxDepositTax:      h.U64("cap"),
	}
	err := p.Validate()
	h.NoteBool("valid", err == nil)
	if err == nil {
		h.Assert(InvP(p), "validated-params-within-safe-bounds")
		h.Assert(len(p.DepositMagicPrefix) == DepositMagicLen, "validated-magic-length")
		h.Assert(BitcoinNetworks[p.NetworkName] != nil, "validated-network-known")
		h.Reach("valid")
	} else {
		h.Reach("invalid")
	}
}
