package types

import (
	"bytes"

	"github.com/btcsuite/btcd/btcec/v2/schnorr"
	"github.com/btcsuite/btcd/chaincfg"
	"github.com/btcsuite/btcd/txscript"
	relayer "github.com/goatnetwork/goat/x/relayer/types"
	"github.com/goatnetwork/goat/zzverif/vrt"
)

func vhNet() *chaincfg.Params { return BitcoinNetworks["regtest"] }

// vhRelayerKey: an arbitrary relayer key of the chosen type. Secp keys are arbitrary 33
// bytes with a valid prefix; schnorr keys are generated (whether arbitrary 32 bytes are a
// curve point is the library's business, not modelled).
func vhRelayerKey(h *vrt.H, pfx string, schnorrKey bool, signer int) *relayer.PublicKey {
	if schnorrKey {
		return &relayer.PublicKey{Key: &relayer.PublicKey_Schnorr{Schnorr: h.SchnorrKey(signer)}}
	}
	k := h.Bytes(pfx+"secpKey", 33)
	h.Assume(h.Either(k[0] == 2, k[0] == 3))
	return &relayer.PublicKey{Key: &relayer.PublicKey_Secp256K1{Secp256K1: k}}
}

func vhSameKey(a, b *relayer.PublicKey) bool {
	return bytes.Equal(relayer.EncodePublicKey(a), relayer.EncodePublicKey(b))
}

// VH_C17_v0: the v0 address handed out for (key, evm) pays a script that deposit checking
// accepts for (key, evm), and for no other (key', evm').
func VH_C17_v0(h *vrt.H) {
	schn := h.Choose("keyType", 0, 1) == 1
	key := vhRelayerKey(h, "a_", schn, 1)
	evm := h.Bytes("evm", 20)
	addr, err := DepositAddressV0(key, evm, vhNet())
	h.Assert(err == nil, "v0-address-is-handed-out-for-every-valid-key")
	if err != nil {
		return
	}
	script, serr := txscript.PayToAddrScript(addr)
	h.Assert(serr == nil, "v0-address-has-a-script")
	h.NoteBytes("script", script)
	h.Assert(VerifyDespositScriptV0(key, evm, script) == nil, "v0-handed-out-address-is-accepted")
	// any other pair accepted for the same script is the same pair
	schn2 := h.Choose("otherKeyType", 0, 1) == 1
	key2 := vhRelayerKey(h, "b_", schn2, h.Choose("otherSchnorrSigner", 1, 2))
	evm2 := h.Bytes("otherEvm", 20)
	if VerifyDespositScriptV0(key2, evm2, script) == nil {
		h.Assert(vhSameKey(key, key2) && bytes.Equal(evm, evm2), "v0-script-accepted-for-no-other-key-or-address")
		h.Reach("accepted-again")
	}
	// mutated script: any single changed byte is refused
	pos := h.Choose("mutatePos", 0, len(script)-1)
	mut := append([]byte{}, script...)
	mut[pos] ^= h.U8("mutateXor")
	if mut[pos] != script[pos] {
		h.Assert(VerifyDespositScriptV0(key, evm, mut) != nil, "v0-mutated-script-refused")
	}
	h.Reach("end")
}

// VH_C17_v1: version 1 (key-hash output + magic-prefixed data output) exists only for ECDSA keys.
func VH_C17_v1(h *vrt.H) {
	schn := h.Choose("keyType", 0, 1) == 1
	key := vhRelayerKey(h, "a_", schn, 1)
	evm := h.Bytes("evm", 20)
	magic := h.Bytes("magic", 4)
	addr, data, err := DepositAddressV1(key, magic, evm, vhNet())
	if schn {
		h.Assert(err != nil, "v1-not-handed-out-for-schnorr-keys")
		// every plausible pair of outputs is refused: the key's own key-path taproot script,
		// or arbitrary 22/34-byte scripts, followed by the well-formed data output or arbitrary bytes
		pk, perr := schnorr.ParsePubKey(key.GetSchnorr())
		if perr != nil {
			return
		}
		keyPath := append([]byte{0x51, 0x20}, schnorr.SerializePubKey(txscript.ComputeTaprootKeyNoScript(pk))...)
		var out0 []byte
		switch h.Choose("schnorrOut0", 0, 2) {
		case 0:
			out0 = keyPath
		case 1:
			out0 = h.Bytes("out0", 22)
		default:
			out0 = h.Bytes("out0", 34)
		}
		dataScript := append(append([]byte{0x6a, 0x18}, magic...), evm...)
		out1 := h.PickBytes(h.Bool("genuineDataOutput"), dataScript, h.Bytes("out1", 26))
		h.Assert(VerifyDespositScriptV1(key, magic, evm, out0, out1) != nil, "v1-refused-for-schnorr-keys")
		h.Reach("schnorr")
		return
	}
	h.Assert(err == nil, "v1-address-is-handed-out-for-every-valid-ecdsa-key")
	if err != nil {
		return
	}
	script, serr := txscript.PayToAddrScript(addr)
	h.Assert(serr == nil, "v1-address-has-a-script")
	h.Assert(VerifyDespositScriptV1(key, magic, evm, script, data) == nil, "v1-handed-out-outputs-are-accepted")
	key2 := vhRelayerKey(h, "b_", false, 1)
	evm2 := h.Bytes("otherEvm", 20)
	magic2 := h.Bytes("otherMagic", 4)
	if VerifyDespositScriptV1(key2, magic2, evm2, script, data) == nil {
		h.Assert(vhSameKey(key, key2) && bytes.Equal(evm, evm2) && bytes.Equal(magic, magic2), "v1-outputs-accepted-for-no-other-key-address-or-magic")
		h.Reach("accepted-again")
	}
	h.Reach("end")
}

// VH_C17_withdraw_address: DecodeBtcAddress returns exactly the script the address encodes
// for every standard kind on the configured network; pay-to-pubkey, other-network and
// undecodable strings are refused.
func VH_C17_withdraw_address(h *vrt.H) {
	kind := h.Choose("kind", 0, 8)
	forNet := h.Choose("forNet", 0, 1) == 1
	n := 20
	if kind == vrt.AddrP2WSH || kind == vrt.AddrP2TR {
		n = 32
	}
	prog := h.Bytes("program", n)
	s := h.BtcAddr(kind, prog, forNet)
	script, err := DecodeBtcAddress(s, vhNet())
	h.NoteBool("ok", err == nil)
	if kind == vrt.AddrP2PK || kind == vrt.AddrP2PKUncompressed || kind == vrt.AddrP2PKHybrid || kind == vrt.AddrGarbage || !forNet {
		h.Assert(err != nil, "legacy-p2pk-foreign-and-garbage-addresses-refused")
		h.Reach("refused")
		return
	}
	h.Assert(err == nil, "standard-address-accepted")
	var want []byte
	switch kind {
	case vrt.AddrP2PKH:
		want = append(append([]byte{0x76, 0xa9, 0x14}, prog...), 0x88, 0xac)
	case vrt.AddrP2SH:
		want = append(append([]byte{0xa9, 0x14}, prog...), 0x87)
	case vrt.AddrP2WPKH:
		want = append([]byte{0x00, 0x14}, prog...)
	case vrt.AddrP2WSH:
		want = append([]byte{0x00, 0x20}, prog...)
	case vrt.AddrP2TR:
		want = append([]byte{0x51, 0x20}, prog...)
	}
	h.NoteBytes("script", script)
	h.Assert(bytes.Equal(script, want), "decoded-script-is-the-one-the-address-encodes")
	_, nerr := DecodeBtcAddress(s, nil)
	h.Assert(nerr != nil, "missing-network-refused")
	h.Reach("accepted")
}

// VH_C17_system_script: the change / consolidation script check accepts exactly the
// key-hash (ECDSA) or key-path taproot (schnorr) script of the current relayer key.
func VH_C17_system_script(h *vrt.H) {
	schn := h.Choose("keyType", 0, 1) == 1
	key := vhRelayerKey(h, "a_", schn, 1)
	n := 22
	if schn {
		n = 34
	}
	script := h.Bytes("script", h.Choose("scriptLenDelta", -1, 1)+n)
	ok := VerifySystemAddressScript(key, script)
	h.NoteBool("ok", ok)
	if ok {
		h.Assert(len(script) == n, "system-script-length")
		if !schn {
			h.Assert(script[0] == 0x00 && script[1] == 0x14, "system-script-is-p2wpkh")
		} else {
			h.Assert(script[0] == 0x51 && script[1] == 0x20, "system-script-is-p2tr")
		}
		key2 := vhRelayerKey(h, "b_", schn, 2)
		if VerifySystemAddressScript(key2, script) {
			h.Assert(vhSameKey(key, key2), "system-script-accepted-for-no-other-key")
		}
		h.Reach("accepted")
	} else {
		h.Reach("refused")
	}
}
