package types

import (
	"bytes"

	goatcrypto "github.com/goatnetwork/goat/pkg/crypto"
	"github.com/goatnetwork/goat/zzverif/vrt"
)

// refFold is the reference Merkle fold written from the property statement: the leaf is
// combined with the path node by node, bit k of the position (LSB first) choosing the
// side. Only the low `depth` bits of the position take part.
func refFold(leaf, path []byte, index uint32, depth int) []byte {
	cur := leaf
	for k := 0; k < depth; k++ {
		node := path[32*k : 32*k+32]
		buf := make([]byte, 0, 64)
		if (index>>uint(k))&1 == 0 {
			buf = append(append(buf, cur...), node...)
		} else {
			buf = append(append(buf, node...), cur...)
		}
		cur = goatcrypto.DoubleSHA256Sum(buf)
	}
	return cur
}

// VH_C04_merkle: VerifyMerkelProof accepts  <=>  the fold of (leaf, path, position)
// equals the root AND the position lies inside the tree (position < 2^depth).
func VH_C04_merkle(h *vrt.H) {
	maxd := 6
	if h.Thorough() {
		maxd = 10
	}
	d := h.Choose("depth", 0, maxd)
	leaf := h.Bytes("leaf", 32)
	path := h.Bytes("path", 32*d)
	idx := h.U32("index")
	root := h.Bytes("root", 32)
	if h.Bool("genuineRoot") { // replayability: a matching root is built through the real hash
		root = refFold(leaf, path, idx, d)
	}
	got := VerifyMerkelProof(leaf, root, path, idx)
	want := bytes.Equal(refFold(leaf, path, idx, d), root) && uint64(idx) < uint64(1)<<uint(d)
	h.NoteBool("got", got)
	h.Assert(got == want, "merkle-accept-iff-fold-and-position-in-tree")
	h.Reach("end")
}

// VH_C04_malformed: wrong hash sizes and ragged paths are rejected, never a panic.
func VH_C04_malformed(h *vrt.H) {
	ll := h.Choose("leafLen", 31, 33)
	rl := h.Choose("rootLen", 31, 33)
	pl := h.Choose("pathLen", 0, 65)
	leaf := h.Bytes("leaf", ll)
	root := h.Bytes("root", rl)
	path := h.Bytes("path", pl)
	idx := h.U32("index")
	var got bool
	p := h.Panics(func() { got = VerifyMerkelProof(leaf, root, path, idx) })
	h.Assert(!p, "merkle-no-panic")
	if ll != 32 || rl != 32 || pl%32 != 0 {
		h.Assert(!got, "merkle-malformed-rejected")
	}
	h.Reach("end")
}
