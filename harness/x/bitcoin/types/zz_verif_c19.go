package types

import (
	relayer "github.com/goatnetwork/goat/x/relayer/types"
	"github.com/goatnetwork/goat/zzverif/vrt"
)

// VH_C19_validate_msgs: every message validator is total on malformed input (nil message,
// nil vote, nil key, odd lengths): it returns, or it panics - which, inside a message handler,
// baseapp turns into a failed transaction. The engine must reach one of the two on every
// path (no UNSUPPORTED / unwinding). Panics are counted, not hidden.
func VH_C19_validate_msgs(h *vrt.H) {
	kind := h.Choose("message", 0, 8)
	nilMsg := h.Choose("nilMessage", 0, 1) == 1
	needVote := kind == 0 || kind == 1 || kind == 2 || kind == 4 || kind == 5
	needKey := kind == 1 || kind == 3 || kind == 8
	needTx := kind == 0 || kind == 3 || kind == 4 || kind == 5
	var vote *relayer.Votes
	if needVote {
		switch h.Choose("vote", 0, 2) {
		case 1:
			vote = &relayer.Votes{Voters: h.Bytes("bitmap", []int{0, 8, 32, 33}[h.Choose("bitmapLen", 0, 3)]), Signature: h.Bytes("signature", []int{0, 47, 48, 49}[h.Choose("sigLen", 0, 3)])}
		case 2:
			vote = &relayer.Votes{}
		}
	}
	var key *relayer.PublicKey
	if needKey {
		switch h.Choose("key", 0, 3) {
		case 1:
			key = &relayer.PublicKey{}
		case 2:
			key = &relayer.PublicKey{Key: &relayer.PublicKey_Secp256K1{Secp256K1: h.Bytes("secp", []int{0, 32, 33, 34}[h.Choose("secpLen", 0, 3)])}}
		case 3:
			key = &relayer.PublicKey{Key: &relayer.PublicKey_Schnorr{Schnorr: h.Bytes("schnorr", []int{0, 31, 32, 33}[h.Choose("schnorrLen", 0, 3)])}}
		}
	}
	var tx []byte
	if needTx {
		tx = h.Bytes("tx", []int{0, 33, 34, 64, 65, 100}[h.Choose("txLen", 0, 5)])
	}
	var err error
	panicked := h.Panics(func() {
		switch kind {
		case 0:
			m := &MsgNewConsolidation{Vote: vote, NoWitnessTx: tx}
			if nilMsg {
				m = nil
			}
			err = m.Validate()
		case 1:
			m := &MsgNewPubkey{Vote: vote, Pubkey: key}
			if nilMsg {
				m = nil
			}
			err = m.Validate()
		case 2:
			m := &MsgNewBlockHashes{Vote: vote, StartBlockNumber: h.U64("start")}
			nh := h.Choose("nHashes", 0, 2)
			for i := 0; i < nh; i++ {
				m.BlockHash = append(m.BlockHash, h.Bytes(h.Name("hash", i), []int{0, 31, 32}[h.Choose(h.Name("hashLen", i), 0, 2)]))
			}
			if nilMsg {
				m = nil
			}
			err = m.Validate()
		case 3:
			m := &MsgNewDeposits{}
			nd := h.Choose("nDeposits", 0, 2)
			for i := 0; i < nd; i++ {
				if h.Choose(h.Name("nilDeposit", i), 0, 1) == 1 {
					m.Deposits = append(m.Deposits, nil)
				} else {
					m.Deposits = append(m.Deposits, &Deposit{NoWitnessTx: tx, EvmAddress: h.Bytes(h.Name("evm", i), []int{0, 19, 20}[h.Choose(h.Name("evmLen", i), 0, 2)]), RelayerPubkey: key})
				}
			}
			nhd := h.Choose("nHeaders", 0, 2)
			for i := 0; i < nhd; i++ {
				if h.Choose(h.Name("nilHeader", i), 0, 1) == 1 {
					m.BlockHeaders = append(m.BlockHeaders, nil)
				} else {
					m.BlockHeaders = append(m.BlockHeaders, &BlockHeader{Height: h.U64(h.Name("height", i)), Raw: h.Bytes(h.Name("raw", i), []int{0, 79, 80}[h.Choose(h.Name("rawLen", i), 0, 2)])})
				}
			}
			if nilMsg {
				m = nil
			}
			if err = m.Validate(); err == nil {
				_, err = m.BlockHeadersMap()
				for _, d := range m.Deposits {
					if e := d.Validate(); e != nil {
						err = e
					}
				}
			}
		case 4:
			m := &MsgProcessWithdrawal{Vote: vote, NoWitnessTx: tx, TxFee: h.U64("fee"), Id: make([]uint64, []int{0, 1, 32, 33}[h.Choose("nIds", 0, 3)])}
			if nilMsg {
				m = nil
			}
			err = m.Validate()
		case 5:
			m := &MsgReplaceWithdrawal{Vote: vote, NewNoWitnessTx: tx, NewTxFee: h.U64("fee")}
			if nilMsg {
				m = nil
			}
			err = m.Validate()
		case 6:
			m := &MsgFinalizeWithdrawal{Txid: h.Bytes("txid", []int{0, 31, 32}[h.Choose("txidLen", 0, 2)]), TxIndex: h.U32("txIndex"),
				IntermediateProof: h.Bytes("proof", []int{0, 31, 32}[h.Choose("proofLen", 0, 2)]), BlockHeader: h.Bytes("header", []int{0, 79, 80}[h.Choose("headerLen", 0, 2)])}
			if nilMsg {
				m = nil
			}
			err = m.Validate()
		case 7:
			m := &MsgApproveCancellation{Id: make([]uint64, []int{0, 1, 32, 33}[h.Choose("nIds", 0, 3)])}
			if nilMsg {
				m = nil
			}
			err = m.Validate()
		case 8:
			err = key.Validate()
			if err == nil {
				_ = relayer.EncodePublicKey(key)
			}
		}
	})
	// a nil vote is the one known way to make a validator panic (Votes.Validate dereferences it)
	if panicked {
		h.Assert(vote == nil && !nilMsg && (kind == 0), "validators-panic-only-on-the-known-nil-vote-case")
		h.Reach("panicked-recovered-by-runtx")
		return
	}
	if err == nil {
		h.Reach("valid")
	} else {
		h.Reach("rejected")
	}
}
