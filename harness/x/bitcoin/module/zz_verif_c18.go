package bitcoin

import (
	"bytes"
	"context"

	"cosmossdk.io/collections"
	"github.com/goatnetwork/goat/x/bitcoin/keeper"
	"github.com/goatnetwork/goat/x/bitcoin/types"
	relayertypes "github.com/goatnetwork/goat/x/relayer/types"
	"github.com/goatnetwork/goat/zzverif/vrt"
)

func vhMust(err error) {
	if err != nil {
		panic("vh: harness state construction failed: " + err.Error())
	}
}

// the relayer module was imported first and knows the bridge key
type vhRelayerStub struct{}

func (vhRelayerStub) VerifyProposal(ctx context.Context, req relayertypes.IVoteMsg, verifyFn ...func(sigdoc []byte) error) (uint64, error) {
	return 0, nil
}
func (vhRelayerStub) VerifyNonProposal(ctx context.Context, req relayertypes.INonVoteMsg) (relayertypes.IRelayer, error) {
	return nil, nil
}
func (vhRelayerStub) UpdateRandao(ctx context.Context, req relayertypes.IVoteMsg) error { return nil }
func (vhRelayerStub) HasPubkey(ctx context.Context, raw []byte) (bool, error)           { return true, nil }
func (vhRelayerStub) AddNewKey(ctx context.Context, raw []byte) error                   { return nil }
func (vhRelayerStub) SetProposalSeq(ctx context.Context, seq uint64) error              { return nil }

// VH_C18_bitcoin: export of any reachable bridge state re-imports without panic into an equal
// state (parameters, key, voted block hashes and tip, credited deposits, withdrawals,
// processing batches and id counter, hand-over queue, nonce).
func VH_C18_bitcoin(h *vrt.H) {
	ka := keeper.NewKeeper(h.Codec(), h.AddressCodec(), h.StoreService("bitcoinA"), h.Logger(), vhRelayerStub{})
	kb := keeper.NewKeeper(h.Codec(), h.AddressCodec(), h.StoreService("bitcoinB"), h.Logger(), vhRelayerStub{})
	ctx := h.Ctx()
	// parameters reachable from a valid genesis through execution-layer requests (C20):
	// rate < 10^4, min deposit >= 1000, confirmations >= 1, ANY tax cap
	params := types.Params{NetworkName: "regtest", ConfirmationNumber: h.U64("confirmations"), MinDepositAmount: h.U64("minDeposit"), DepositMagicPrefix: []byte("GTT0"),
		DepositTaxRate: h.U64("rate"), MaxDepositTax: h.U64("cap")}
	h.Assume(types.InvP(params))
	// known finding (see known_findings.jsonl): the runtime accepts tax settings that genesis validation refuses
	h.Region("tax-settings-refused-by-genesis-validation", h.Either(h.Either(h.Both(params.DepositTaxRate > 0, params.MaxDepositTax == 0), params.MaxDepositTax > 100000000),
		h.Both(params.DepositTaxRate == 0, params.MaxDepositTax != 0)))
	vhMust(ka.Params.Set(ctx, params))
	key := relayertypes.PublicKey{Key: &relayertypes.PublicKey_Secp256K1{Secp256K1: append([]byte{0x03}, h.Bytes("key", 32)...)}}
	vhMust(ka.Pubkey.Set(ctx, key))
	tip := h.U64("tip")
	h.Assume(tip >= 2 && tip < 1<<62)
	vhMust(ka.BlockTip.Set(ctx, tip))
	nHashes := h.Choose("nHashes", 1, 3)
	hashes := make([][]byte, nHashes)
	for i := 0; i < nHashes; i++ {
		hashes[i] = h.Bytes(h.Name("hash", i), 32)
		vhMust(ka.BlockHashes.Set(ctx, tip-uint64(i), hashes[i]))
	}
	nonce := h.U64("nonce")
	vhMust(ka.EthTxNonce.Set(ctx, nonce))
	queue := types.EthTxQueue{BlockNumber: tip - uint64(h.Choose("cursorLag", 0, 1)), RejectedWithdrawals: []uint64{h.U64("queuedRefund")}}
	vhMust(ka.EthTxQueue.Set(ctx, queue))
	txid := h.Bytes("depositTxid", 32)
	vhMust(ka.Deposited.Set(ctx, collections.Join(txid, uint32(1)), h.U64("depositAmount")))
	wd := types.Withdrawal{Address: "addr", RequestAmount: h.U64("wdAmount"), MaxTxPrice: h.U64("wdPrice"), Status: types.WithdrawalStatus(h.Choose("wdStatus", 1, 5))}
	if wd.Status == types.WITHDRAWAL_STATUS_PROCESSING || wd.Status == types.WITHDRAWAL_STATUS_PAID {
		wd.Receipt = &types.WithdrawalReceipt{Txid: h.Bytes("receiptTxid", 32), Txout: 0, Amount: h.U64("receiptAmount")}
	}
	vhMust(ka.Withdrawals.Set(ctx, 5, wd))
	pid := h.U64("processId")
	h.Assume(pid >= 1 && pid < 1<<62)
	if wd.Status == types.WITHDRAWAL_STATUS_PROCESSING {
		vhMust(ka.Processing.Set(ctx, pid-1, types.Processing{Txid: [][]byte{wd.Receipt.Txid}, Output: []types.TxOuptut{{Values: []uint64{wd.Receipt.Amount}}}, Withdrawals: []uint64{5}, Fee: h.U64("batchFee")}))
	}
	vhMust(ka.ProcessID.Set(ctx, pid))

	var gs *types.GenesisState
	h.Assert(!h.Panics(func() { gs = ExportGenesis(ctx, ka) }), "export-never-panics")
	if gs == nil {
		return
	}
	imported := !h.Panics(func() { InitGenesis(ctx, kb, *gs) })
	h.Assert(imported, "exported-state-re-imports-without-panic")
	if !imported {
		return
	}
	pb, _ := kb.Params.Get(ctx)
	h.Assert(pb.DepositTaxRate == params.DepositTaxRate && pb.MaxDepositTax == params.MaxDepositTax && pb.MinDepositAmount == params.MinDepositAmount && pb.ConfirmationNumber == params.ConfirmationNumber && pb.NetworkName == params.NetworkName, "params-restored")
	kk, _ := kb.Pubkey.Get(ctx)
	tb, _ := kb.BlockTip.Peek(ctx)
	h.Assert(bytes.Equal(kk.GetSecp256K1(), key.GetSecp256K1()) && tb == tip, "key-and-tip-restored")
	for i := 0; i < nHashes; i++ {
		hb, herr := kb.BlockHashes.Get(ctx, tip-uint64(i))
		h.Assert(herr == nil && bytes.Equal(hb, hashes[i]), "block-hashes-restored-at-their-heights")
	}
	_, extra := kb.BlockHashes.Get(ctx, tip-uint64(nHashes))
	h.Assert(extra != nil, "no-block-hash-invented")
	nb, _ := kb.EthTxNonce.Peek(ctx)
	qb, _ := kb.EthTxQueue.Get(ctx)
	h.Assert(nb == nonce && qb.BlockNumber == queue.BlockNumber && len(qb.RejectedWithdrawals) == 1 && qb.RejectedWithdrawals[0] == queue.RejectedWithdrawals[0], "nonce-and-hand-over-queue-restored")
	da, _ := ka.Deposited.Get(ctx, collections.Join(txid, uint32(1)))
	db, derr := kb.Deposited.Get(ctx, collections.Join(txid, uint32(1)))
	h.Assert(derr == nil && da == db, "credited-deposits-restored")
	wb, werr := kb.Withdrawals.Get(ctx, 5)
	h.Assert(werr == nil && wb.Status == wd.Status && wb.RequestAmount == wd.RequestAmount && wb.MaxTxPrice == wd.MaxTxPrice && (wb.Receipt == nil) == (wd.Receipt == nil), "withdrawals-restored")
	pidB, _ := kb.ProcessID.Peek(ctx)
	h.Assert(pidB == pid, "process-id-counter-restored")
	if wd.Status == types.WITHDRAWAL_STATUS_PROCESSING {
		bb, berr := kb.Processing.Get(ctx, pid-1)
		h.Assert(berr == nil && len(bb.Txid) == 1 && len(bb.Withdrawals) == 1 && bb.Withdrawals[0] == 5, "processing-batches-restored")
	}
	h.Reach("end")
}
