package keeper

import (
	"bytes"

	goatcrypto "github.com/goatnetwork/goat/pkg/crypto"
	"github.com/goatnetwork/goat/x/bitcoin/types"
	relayertypes "github.com/goatnetwork/goat/x/relayer/types"
	"github.com/goatnetwork/goat/zzverif/vrt"
)

// VH_C02_voted_handlers: the three voted handlers not covered under C05 (block hashes, new
// relayer key, consolidation): success consumes exactly one sequence number (VerifyProposal
// on this very request, SetProposalSeq(returned+1), one randao update); a refused vote
// leaves the bridge state untouched and consumes nothing.
func VH_C02_voted_handlers(h *vrt.H) {
	rk := &vhRelayer{VerifyErr: h.Bool("voteRejected"), Sequence: h.U64("sequence"), HasKey: h.Bool("keyKnown")}
	k, ctx := vhKeeper(h, rk)
	vhMust(h, k.Params.Set(ctx, types.Params{NetworkName: "regtest", ConfirmationNumber: 1, MinDepositAmount: 10000, DepositMagicPrefix: []byte("GTT0")}))
	tip := h.U64("tip")
	h.Assume(tip < 1<<62)
	vhMust(h, k.BlockTip.Set(ctx, tip))
	curKey := h.Bytes("currentKey", 33)
	h.Assume(h.Either(curKey[0] == 2, curKey[0] == 3))
	cur := &relayertypes.PublicKey{Key: &relayertypes.PublicKey_Secp256K1{Secp256K1: curKey}}
	vhMust(h, k.Pubkey.Set(ctx, *cur))
	vote := &relayertypes.Votes{Signature: make([]byte, goatcrypto.SignatureLength)}
	var err error
	var method string
	kind := h.Choose("handler", 0, 2)
	nHashes := 0
	switch kind {
	case 0:
		nHashes = h.Choose("nHashes", 0, 2)
		req := &types.MsgNewBlockHashes{Proposer: "p", Vote: vote, StartBlockNumber: h.U64("startBlock")}
		for i := 0; i < nHashes; i++ {
			req.BlockHash = append(req.BlockHash, h.Bytes(h.Name("hash", i), 32))
		}
		method = req.MethodName()
		_, err = (msgServer{Keeper: k}).NewBlockHashes(ctx, req)
		if err == nil {
			h.Assert(req.StartBlockNumber == tip+1, "block-hashes-extend-the-tip-without-gap")
			for i := 0; i < nHashes; i++ {
				got, gerr := k.BlockHashes.Get(ctx, tip+1+uint64(i))
				h.Assert(gerr == nil && bytes.Equal(got, req.BlockHash[i]), "voted-hashes-recorded-in-order")
			}
			t2, _ := k.BlockTip.Peek(ctx)
			h.Assert(t2 == tip+uint64(nHashes), "tip-advanced-by-the-number-of-hashes")
		}
	case 1:
		nk := h.Bytes("newKey", 33)
		h.Assume(h.Either(nk[0] == 2, nk[0] == 3))
		req := &types.MsgNewPubkey{Proposer: "p", Vote: vote, Pubkey: &relayertypes.PublicKey{Key: &relayertypes.PublicKey_Secp256K1{Secp256K1: nk}}}
		method = req.MethodName()
		_, err = (msgServer{Keeper: k}).NewPubkey(ctx, req)
		if err == nil {
			h.Assert(!rk.HasKey && len(rk.KeysAdded) == 1, "only-a-new-key-is-registered")
			got, _ := k.Pubkey.Get(ctx)
			h.Assert(bytes.Equal(got.GetSecp256K1(), nk), "current-relayer-key-replaced")
		}
	case 2:
		paysKey := h.Bool("paysCurrentKey")
		want := append([]byte{0x00, 0x14}, goatcrypto.Hash160Sum(curKey)...)
		nOut := h.Choose("nOutputs", 1, 2)
		values := make([]int64, nOut)
		scripts := make([][]byte, nOut)
		for i := range values {
			values[i] = int64(h.U64(h.Name("value", i)) >> 1)
			scripts[i] = h.Bytes(h.Name("script", i), 22)
		}
		scripts[0] = vhPick(h, paysKey, want, "consolidationScript")
		req := &types.MsgNewConsolidation{Proposer: "p", Vote: vote, NoWitnessTx: h.BtcTx(values, scripts)}
		method = req.MethodName()
		_, err = (msgServer{Keeper: k}).NewConsolidation(ctx, req)
		if err == nil {
			h.Assert(nOut == 1 && paysKey, "consolidation-has-one-output-paying-the-current-key")
		}
	}
	h.NoteBool("ok", err == nil)
	if err != nil {
		if rk.VerifyErr {
			t2, _ := k.BlockTip.Peek(ctx)
			got, _ := k.Pubkey.Get(ctx)
			h.Assert(t2 == tip && bytes.Equal(got.GetSecp256K1(), curKey) && len(rk.KeysAdded) == 0, "refused-vote-leaves-bridge-state-untouched")
		}
		h.Assert(len(rk.SeqSet) == 0 && rk.RandaoCalls == 0, "failed-proposal-consumes-no-sequence")
		h.Reach("refused")
		return
	}
	verifyCalls := 0
	for _, c := range rk.Calls {
		if c == "VerifyProposal:"+method {
			verifyCalls++
		}
	}
	h.Assert(!rk.VerifyErr && verifyCalls == 1, "accepted-only-after-the-quorum-check-on-this-action")
	h.Assert(len(rk.SeqSet) == 1 && rk.SeqSet[0] == rk.Sequence+1 && rk.RandaoCalls == 1, "accepted-proposal-consumes-exactly-one-sequence")
	h.Reach("accepted")
}
