package keeper

import (
	"bytes"

	"cosmossdk.io/math"
	sdk "github.com/cosmos/cosmos-sdk/types"
	"github.com/ethereum/go-ethereum/core/types/goattypes"
	goatcrypto "github.com/goatnetwork/goat/pkg/crypto"
	"github.com/goatnetwork/goat/x/bitcoin/types"
	relayertypes "github.com/goatnetwork/goat/x/relayer/types"
	"github.com/goatnetwork/goat/zzverif/vrt"
)

// ---- bounded universe: withdrawals with ids 1..W ----

type vhWd struct {
	id     uint64
	prog   []byte // witness program of the user's p2wpkh address
	script []byte
	w      types.Withdrawal
}

type vhBridge struct {
	W       int
	wd      []*vhWd
	pid     uint64
	inBatch []bool
	batch   types.Processing
	hasBat  bool
	relKey  *relayertypes.PublicKey
}

func vhStatusOK(from, to types.WithdrawalStatus) bool {
	if from == to {
		return true
	}
	switch from {
	case types.WITHDRAWAL_STATUS_PENDING:
		return to == types.WITHDRAWAL_STATUS_CANCELING || to == types.WITHDRAWAL_STATUS_PROCESSING
	case types.WITHDRAWAL_STATUS_CANCELING:
		return to == types.WITHDRAWAL_STATUS_PROCESSING || to == types.WITHDRAWAL_STATUS_CANCELED
	case types.WITHDRAWAL_STATUS_PROCESSING:
		return to == types.WITHDRAWAL_STATUS_PAID
	}
	return false // paid and cancelled are terminal
}

// vhBuildBridge writes an ARBITRARY bridge state satisfying Inv_B: every PROCESSING
// withdrawal has a receipt and is listed in the single processing batch (which has 1..2
// candidate transactions with one output value per listed withdrawal).
func vhBuildBridge(h *vrt.H, k Keeper, ctx sdk.Context, w int) *vhBridge {
	st := &vhBridge{W: w, pid: 7}
	vhMust(h, k.Params.Set(ctx, types.Params{NetworkName: "regtest", ConfirmationNumber: 1, MinDepositAmount: 10000, DepositMagicPrefix: []byte("GTT0")}))
	vhMust(h, k.EthTxQueue.Set(ctx, types.EthTxQueue{}))
	keyBytes := h.Bytes("relayerKey", 33)
	h.Assume(h.Either(keyBytes[0] == 2, keyBytes[0] == 3))
	st.relKey = &relayertypes.PublicKey{Key: &relayertypes.PublicKey_Secp256K1{Secp256K1: keyBytes}}
	vhMust(h, k.Pubkey.Set(ctx, *st.relKey))
	nCand := h.Choose("batchCandidates", 1, 2)
	for c := 0; c < nCand; c++ {
		st.batch.Txid = append(st.batch.Txid, h.Bytes(h.Name("batchTxid", c), 32))
		st.batch.Output = append(st.batch.Output, types.TxOuptut{})
	}
	if nCand == 2 {
		h.Assume(!bytes.Equal(st.batch.Txid[0], st.batch.Txid[1]))
	}
	st.batch.Fee = h.U64("batchFee")
	for i := 0; i < w; i++ {
		d := &vhWd{id: uint64(i + 1), prog: h.Bytes(h.Name("userProgram", i), 20)}
		d.script = append([]byte{0x00, 0x14}, d.prog...)
		status := types.WithdrawalStatus(h.Choose(h.Name("status", i), 1, 5))
		d.w = types.Withdrawal{Address: h.BtcAddr(vrt.AddrP2WPKH, d.prog, true), RequestAmount: h.U64(h.Name("requested", i)), MaxTxPrice: uint64(h.U32(h.Name("maxPrice", i))), Status: status}
		listed := status == types.WITHDRAWAL_STATUS_PROCESSING
		if status == types.WITHDRAWAL_STATUS_PROCESSING || status == types.WITHDRAWAL_STATUS_PAID {
			d.w.Receipt = &types.WithdrawalReceipt{Txid: st.batch.Txid[nCand-1], Txout: uint32(i), Amount: h.U64(h.Name("receiptAmount", i))}
		}
		st.inBatch = append(st.inBatch, listed)
		if listed {
			st.hasBat = true
			st.batch.Withdrawals = append(st.batch.Withdrawals, d.id)
			for c := 0; c < nCand; c++ {
				st.batch.Output[c].Values = append(st.batch.Output[c].Values, h.U64(h.Name("candidateValue", c, i)))
			}
		}
		vhMust(h, k.Withdrawals.Set(ctx, d.id, d.w))
		st.wd = append(st.wd, d)
	}
	if st.hasBat {
		vhMust(h, k.Processing.Set(ctx, st.pid, st.batch))
	}
	vhMust(h, k.ProcessID.Set(ctx, st.pid+1))
	return st
}

// vhCheckWithdrawalStep: the status graph, terminal states and exactly-one notice per id.
func vhCheckWithdrawalStep(h *vrt.H, k Keeper, ctx sdk.Context, st *vhBridge) []types.Withdrawal {
	q, err := k.EthTxQueue.Get(ctx)
	vhMust(h, err)
	post := make([]types.Withdrawal, st.W)
	for i, d := range st.wd {
		w, gerr := k.Withdrawals.Get(ctx, d.id)
		vhMust(h, gerr)
		post[i] = w
		h.Assert(vhStatusOK(d.w.Status, w.Status), "status-moves-only-along-the-allowed-graph")
		paid, rej := 0, 0
		for _, p := range q.PaidWithdrawals {
			if p.Id == d.id {
				paid++
			}
		}
		for _, r := range q.RejectedWithdrawals {
			if r == d.id {
				rej++
			}
		}
		becamePaid := w.Status == types.WITHDRAWAL_STATUS_PAID && d.w.Status != types.WITHDRAWAL_STATUS_PAID
		becameCancelled := w.Status == types.WITHDRAWAL_STATUS_CANCELED && d.w.Status != types.WITHDRAWAL_STATUS_CANCELED
		h.Assert(paid == h.B2I(becamePaid), "paid-notice-iff-became-paid")
		h.Assert(rej == h.B2I(becameCancelled), "refund-notice-iff-became-cancelled")
		h.Assert(w.Address == d.w.Address && w.RequestAmount == d.w.RequestAmount, "address-and-amount-never-change")
	}
	return post
}

// VH_C05_user_requests: execution-layer requests (new withdrawal with a fresh id, fee
// update, cancel) on any Inv_B state.
func VH_C05_user_requests(h *vrt.H) {
	k, ctx := vhKeeper(h, &vhRelayer{})
	st := vhBuildBridge(h, k, ctx, 2)
	var reqs goattypes.BridgeRequests
	newKind := h.Choose("newWithdrawal", 0, 2) // none / decodable address / undecodable address
	newID := uint64(9)
	if newKind > 0 {
		addr := h.BtcAddr(vrt.AddrP2WPKH, h.Bytes("newProgram", 20), true)
		if newKind == 2 {
			// garbage, a legacy pay-to-pubkey address of this network (compressed, uncompressed,
			// hybrid key) or a standard address of another network
			bk := h.Choose("badKind", 0, 4)
			addr = h.BtcAddr([]int{vrt.AddrGarbage, vrt.AddrP2PK, vrt.AddrP2WPKH, vrt.AddrP2PKUncompressed, vrt.AddrP2PKHybrid}[bk], h.Bytes("badProgram", 20), bk == 1 || bk >= 3)
		}
		reqs.Withdraws = append(reqs.Withdraws, &goattypes.WithdrawalRequest{Id: newID, Amount: h.U64("newAmount"), TxPrice: h.U64("newPrice"), Address: addr})
	}
	if h.Choose("rbf", 0, 1) == 1 {
		reqs.ReplaceByFees = append(reqs.ReplaceByFees, &goattypes.ReplaceByFeeRequest{Id: uint64(h.Choose("rbfId", 1, 3)), TxPrice: h.U64("rbfPrice")})
	}
	if h.Choose("cancel", 0, 1) == 1 {
		reqs.Cancel1s = append(reqs.Cancel1s, &goattypes.Cancel1Request{Id: uint64(h.Choose("cancelId", 1, 3))})
	}
	err := k.ProcessBridgeRequest(ctx, reqs)
	h.NoteBool("ok", err == nil)
	if err != nil {
		h.Reach("refused")
		return
	}
	post := vhCheckWithdrawalStep(h, k, ctx, st)
	for i, d := range st.wd {
		if post[i].Status != d.w.Status {
			h.Assert(d.w.Status == types.WITHDRAWAL_STATUS_PENDING && post[i].Status == types.WITHDRAWAL_STATUS_CANCELING, "users-can-only-request-cancellation-of-pending")
		}
	}
	if newKind > 0 {
		nw, gerr := k.Withdrawals.Get(ctx, newID)
		vhMust(h, gerr)
		q, _ := k.EthTxQueue.Get(ctx)
		refunds := 0
		for _, r := range q.RejectedWithdrawals {
			if r == newID {
				refunds++
			}
		}
		if newKind == 1 {
			h.Assert(nw.Status == types.WITHDRAWAL_STATUS_PENDING && refunds == 0, "decodable-address-starts-pending")
		} else {
			h.Assert(nw.Status == types.WITHDRAWAL_STATUS_CANCELED && refunds == 1, "undecodable-address-is-refunded-once")
		}
	}
	h.Reach("end")
}

// VH_C05_process: a withdrawal becomes PROCESSING only through a voted transaction paying
// exactly the user's script, no more than requested, within the user's fee-rate limit, with
// at most one extra output which pays the current relayer key.
func VH_C05_process(h *vrt.H) {
	rk := &vhRelayer{VerifyErr: h.Bool("voteRejected"), Sequence: h.U64("sequence")}
	k, ctx := vhKeeper(h, rk)
	st := vhBuildBridge(h, k, ctx, 2)
	nIds := h.Choose("nIds", 1, 2)
	ids := make([]uint64, nIds)
	for i := range ids {
		ids[i] = uint64(h.Choose(h.Name("id", i), 1, 3))
	}
	nOut := h.Choose("nOutputs", 1, 3)
	values := make([]int64, nOut)
	scripts := make([][]byte, nOut)
	changeGenuine := h.Bool("changePaysRelayerKey")
	for o := 0; o < nOut; o++ {
		values[o] = int64(h.U64(h.Name("value", o)) >> 1)
		switch {
		case o < nIds && ids[o] <= uint64(st.W):
			genuine := h.Bool(h.Name("paysUserScript", o))
			scripts[o] = vhPick(h, genuine, st.wd[ids[o]-1].script, h.Name("script", o))
		case o == nIds:
			want := append([]byte{0x00, 0x14}, goatcrypto.Hash160Sum(st.relKey.GetSecp256K1())...)
			scripts[o] = vhPick(h, changeGenuine, want, h.Name("script", o))
		default:
			scripts[o] = h.Bytes(h.Name("script", o), 22)
		}
	}
	tx := h.BtcTx(values, scripts)
	fee := uint64(h.U32("feeLow")) | uint64(h.U32("feeHigh")&0xFFFFF)<<32 // < 2^52: float64 is exact
	req := &types.MsgProcessWithdrawal{Proposer: "p", Vote: &relayertypes.Votes{Signature: make([]byte, goatcrypto.SignatureLength)}, Id: ids, NoWitnessTx: tx, TxFee: fee}
	_, err := (msgServer{Keeper: k}).ProcessWithdrawal(ctx, req)
	h.NoteBool("ok", err == nil)
	if err != nil {
		// (a failed message is rolled back by baseapp; nothing to check on the partial state)
		h.Reach("refused")
		return
	}
	h.Assert(!rk.VerifyErr && len(rk.SeqSet) == 1 && rk.SeqSet[0] == rk.Sequence+1 && rk.RandaoCalls == 1, "processing-needs-an-accepted-vote-and-consumes-one-sequence")
	h.Assert(nOut == nIds || nOut == nIds+1, "at-most-one-extra-output")
	if nOut == nIds+1 {
		h.Assert(changeGenuine, "extra-output-pays-the-current-relayer-key")
	}
	post := vhCheckWithdrawalStep(h, k, ctx, st)
	size := math.NewInt(int64(len(tx)))
	two52 := math.NewIntFromUint64(1 << 52)
	txid := goatcrypto.DoubleSHA256Sum(tx)
	for o, id := range ids {
		h.Assert(id <= uint64(st.W), "only-existing-withdrawals-are-processed")
		if id > uint64(st.W) {
			return
		}
		for p := 0; p < o; p++ {
			h.Assert(ids[p] != id, "an-id-is-processed-once-per-transaction")
		}
		d, w := st.wd[id-1], post[id-1]
		h.Assert((d.w.Status == types.WITHDRAWAL_STATUS_PENDING || d.w.Status == types.WITHDRAWAL_STATUS_CANCELING) && w.Status == types.WITHDRAWAL_STATUS_PROCESSING, "listed-withdrawal-becomes-processing")
		h.Assert(bytes.Equal(scripts[o], d.script), "output-pays-exactly-the-user-script")
		h.Assert(uint64(values[o]) <= d.w.RequestAmount, "output-no-more-than-requested")
		// fee/size <= maxPrice up to one float64 rounding: fee*2^52 <= maxPrice*size*(2^52+1)
		h.Assert(math.NewIntFromUint64(fee).Mul(two52).LTE(math.NewIntFromUint64(d.w.MaxTxPrice).Mul(size).Mul(two52.AddRaw(1))), "fee-rate-within-the-user-limit")
		h.Assert(w.Receipt != nil && bytes.Equal(w.Receipt.Txid, txid) && w.Receipt.Txout == uint32(o) && w.Receipt.Amount == uint64(values[o]), "receipt-records-this-transaction-output")
	}
	b, berr := k.Processing.Get(ctx, st.pid+1)
	h.Assert(berr == nil && len(b.Txid) == 1 && len(b.Output) == 1 && len(b.Withdrawals) == nIds && b.Fee == fee, "a-new-batch-lists-the-processed-ids")
	h.Reach("processed")
}

// VH_C05_replace: a fee bump needs a vote, a strictly higher fee, a transaction not voted
// before, and the same output rules; statuses do not change.
func VH_C05_replace(h *vrt.H) {
	rk := &vhRelayer{VerifyErr: h.Bool("voteRejected"), Sequence: h.U64("sequence")}
	k, ctx := vhKeeper(h, rk)
	st := vhBuildBridge(h, k, ctx, 2)
	n := len(st.batch.Withdrawals)
	nOut := h.Choose("nOutputs", 1, 3)
	values := make([]int64, nOut)
	scripts := make([][]byte, nOut)
	changeGenuine := h.Bool("changePaysRelayerKey")
	for o := 0; o < nOut; o++ {
		values[o] = int64(h.U64(h.Name("value", o)) >> 1)
		switch {
		case o < n:
			genuine := h.Bool(h.Name("paysUserScript", o))
			scripts[o] = vhPick(h, genuine, st.wd[st.batch.Withdrawals[o]-1].script, h.Name("script", o))
		case o == n:
			want := append([]byte{0x00, 0x14}, goatcrypto.Hash160Sum(st.relKey.GetSecp256K1())...)
			scripts[o] = vhPick(h, changeGenuine, want, h.Name("script", o))
		default:
			scripts[o] = h.Bytes(h.Name("script", o), 22)
		}
	}
	tx := h.BtcTx(values, scripts)
	txid := goatcrypto.DoubleSHA256Sum(tx)
	for _, old := range st.batch.Txid {
		h.Assume(!bytes.Equal(old, txid)) // earlier candidates are arbitrary ids different from this hash
	}
	fee := uint64(h.U32("feeLow")) | uint64(h.U32("feeHigh")&0xFFFFF)<<32
	pid := st.pid + uint64(h.Choose("pidOffset", 0, 1))
	req := &types.MsgReplaceWithdrawal{Proposer: "p", Vote: &relayertypes.Votes{Signature: make([]byte, goatcrypto.SignatureLength)}, Pid: pid, NewNoWitnessTx: tx, NewTxFee: fee}
	_, err := (msgServer{Keeper: k}).ReplaceWithdrawal(ctx, req)
	h.NoteBool("ok", err == nil)
	if err != nil {
		h.Reach("refused")
		return
	}
	h.Assert(st.hasBat && pid == st.pid, "only-an-existing-batch-is-fee-bumped")
	h.Assert(!rk.VerifyErr && len(rk.SeqSet) == 1 && rk.SeqSet[0] == rk.Sequence+1 && rk.RandaoCalls == 1, "fee-bump-needs-an-accepted-vote-and-consumes-one-sequence")
	h.Assert(fee > st.batch.Fee, "fee-bump-strictly-raises-the-fee")
	h.Assert(nOut == n || nOut == n+1, "at-most-one-extra-output")
	if nOut == n+1 {
		h.Assert(changeGenuine, "extra-output-pays-the-current-relayer-key")
	}
	post := vhCheckWithdrawalStep(h, k, ctx, st)
	size := math.NewInt(int64(len(tx)))
	two52 := math.NewIntFromUint64(1 << 52)
	for o, id := range st.batch.Withdrawals {
		d, w := st.wd[id-1], post[id-1]
		h.Assert(w.Status == types.WITHDRAWAL_STATUS_PROCESSING, "fee-bump-keeps-withdrawals-processing")
		h.Assert(bytes.Equal(scripts[o], d.script) && uint64(values[o]) <= d.w.RequestAmount, "bumped-output-pays-the-user-script-within-the-request")
		h.Assert(math.NewIntFromUint64(fee).Mul(two52).LTE(math.NewIntFromUint64(d.w.MaxTxPrice).Mul(size).Mul(two52.AddRaw(1))), "fee-rate-within-the-user-limit")
	}
	b, berr := k.Processing.Get(ctx, st.pid)
	vhMust(h, berr)
	h.Assert(len(b.Txid) == len(st.batch.Txid)+1 && bytes.Equal(b.Txid[len(b.Txid)-1], txid) && len(b.Output) == len(b.Txid) && b.Fee == fee, "candidate-appended-to-the-batch")
	h.Reach("replaced")
}

// VH_C05_finalize: PAID only on an SPV proof, under a voted block hash, of one of the voted
// candidate transactions; the reported amount is that candidate's output.
func VH_C05_finalize(h *vrt.H) {
	rk := &vhRelayer{VerifyErr: h.Bool("notProposer")}
	k, ctx := vhKeeper(h, rk)
	st := vhBuildBridge(h, k, ctx, 2)
	cand := h.Choose("candidate", 0, 2) // index into the batch, or 2 = some other txid
	var txid []byte
	if cand < len(st.batch.Txid) {
		txid = st.batch.Txid[cand]
	} else {
		txid = h.Bytes("otherTxid", 32)
		for _, t := range st.batch.Txid {
			h.Assume(!bytes.Equal(t, txid))
		}
	}
	depth := h.Choose("depth", 1, 2)
	path := h.Bytes("path", 32*depth)
	idx := h.U32("txIndex")
	rootGenuine := h.Bool("genuineRoot")
	root := vhPick(h, rootGenuine, vhFold(txid, path, idx, depth), "root")
	header := append(append(append([]byte{}, h.Bytes("headerVersion", 4)...), make([]byte, 32)...), append(root, make([]byte, 12)...)...)
	bn := h.U64("blockNumber")
	hashGenuine := h.Bool("genuineBlockHash")
	hasHash := h.Choose("blockHashStored", 0, 1) == 1
	if hasHash {
		vhMust(h, k.BlockHashes.Set(ctx, bn, vhPick(h, hashGenuine, goatcrypto.DoubleSHA256Sum(header), "storedHash")))
	}
	pid := st.pid + uint64(h.Choose("pidOffset", 0, 1))
	req := &types.MsgFinalizeWithdrawal{Proposer: "p", Pid: pid, Txid: txid, BlockNumber: bn, TxIndex: idx, IntermediateProof: path, BlockHeader: header}
	_, err := (msgServer{Keeper: k}).FinalizeWithdrawal(ctx, req)
	h.NoteBool("ok", err == nil)
	if err != nil {
		h.Reach("refused")
		return
	}
	h.Assert(!rk.VerifyErr && len(rk.SeqSet) == 0 && rk.RandaoCalls == 0, "finalisation-is-sent-by-the-proposer-and-consumes-no-sequence")
	h.Assert(st.hasBat && pid == st.pid && cand < len(st.batch.Txid), "proof-is-for-a-voted-candidate-of-an-existing-batch")
	h.Assert(hasHash && hashGenuine, "header-hash-equals-voted-block-hash")
	h.Assert(rootGenuine && idx != 0 && uint64(idx) < uint64(1)<<uint(depth), "candidate-hashes-into-the-header-at-a-non-coinbase-position")
	post := vhCheckWithdrawalStep(h, k, ctx, st)
	q, _ := k.EthTxQueue.Get(ctx)
	for o, id := range st.batch.Withdrawals {
		w := post[id-1]
		h.Assert(w.Status == types.WITHDRAWAL_STATUS_PAID, "batch-withdrawals-become-paid")
		if cand < len(st.batch.Output) {
			h.Assert(w.Receipt != nil && w.Receipt.Amount == st.batch.Output[cand].Values[o] && bytes.Equal(w.Receipt.Txid, txid), "reported-amount-is-the-proven-candidates-output")
		}
		for _, p := range q.PaidWithdrawals {
			if p.Id == id && cand < len(st.batch.Output) {
				h.Assert(p.Receipt.Amount == st.batch.Output[cand].Values[o], "paid-notice-carries-the-proven-amount")
			}
		}
	}
	_, gone := k.Processing.Get(ctx, st.pid)
	h.Assert(gone != nil, "finalised-batch-is-removed")
	h.Reach("paid")
}

// VH_C05_approve_cancel: CANCELED only from CANCELING, one refund notice per id.
func VH_C05_approve_cancel(h *vrt.H) {
	rk := &vhRelayer{VerifyErr: h.Bool("notProposer")}
	k, ctx := vhKeeper(h, rk)
	st := vhBuildBridge(h, k, ctx, 2)
	nIds := h.Choose("nIds", 1, 2)
	ids := make([]uint64, nIds)
	for i := range ids {
		ids[i] = uint64(h.Choose(h.Name("id", i), 1, 3))
	}
	_, err := (msgServer{Keeper: k}).ApproveCancellation(ctx, &types.MsgApproveCancellation{Proposer: "p", Id: ids})
	h.NoteBool("ok", err == nil)
	if err != nil {
		h.Reach("refused")
		return
	}
	h.Assert(!rk.VerifyErr && len(rk.SeqSet) == 0, "cancellation-is-approved-by-the-proposer-and-consumes-no-sequence")
	post := vhCheckWithdrawalStep(h, k, ctx, st)
	for _, id := range ids {
		h.Assert(id <= uint64(st.W), "only-existing-withdrawals")
		if id <= uint64(st.W) {
			h.Assert(st.wd[id-1].w.Status == types.WITHDRAWAL_STATUS_CANCELING && post[id-1].Status == types.WITHDRAWAL_STATUS_CANCELED, "cancelled-only-from-cancel-requested")
		}
	}
	h.Reach("cancelled")
}
