package keeper

import (
	"bytes"

	"cosmossdk.io/collections"
	"cosmossdk.io/math"
	"github.com/btcsuite/btcd/txscript"
	goatcrypto "github.com/goatnetwork/goat/pkg/crypto"
	"github.com/goatnetwork/goat/x/bitcoin/types"
	relayertypes "github.com/goatnetwork/goat/x/relayer/types"
	"github.com/goatnetwork/goat/zzverif/vrt"
)

// vhFold: reference Merkle fold (see C04), low `depth` bits of the position.
func vhFold(leaf, path []byte, index uint32, depth int) []byte {
	cur := leaf
	for k := 0; k < depth; k++ {
		node := path[32*k : 32*k+32]
		buf := make([]byte, 0, 64)
		if (index>>uint(k))&1 == 0 {
			buf = append(append(buf, cur...), node...)
		} else {
			buf = append(append(buf, node...), cur...)
		}
		cur = goatcrypto.DoubleSHA256Sum(buf)
	}
	return cur
}

// vhPick returns the genuine value when the flag is set and otherwise an arbitrary value
// DIFFERENT from it (a free value cannot be made to hit a real hash output, so that case
// could not be replayed; it is covered by the genuine branch).
func vhPick(h *vrt.H, genuine bool, real []byte, name string) []byte {
	arb := h.Bytes(name, len(real))
	h.Assume(h.Either(genuine, !bytes.Equal(arb, real)))
	return h.PickBytes(genuine, real, arb)
}

type vhDepositCase struct {
	dep     *types.Deposit
	headers map[uint64][]byte
	header  []byte
	value   uint64
	nOut    int
	depth   int
	path    []byte
	txid    []byte
	// what the harness knows to be true of its construction
	scriptGenuine bool
	hashGenuine   bool
	rootGenuine   bool
	key           *relayertypes.PublicKey
}

// vhDeposit builds an arbitrary deposit claim: every part that must be related to another
// through hashing is either built through the real function (genuine) or arbitrary.
func vhDeposit(h *vrt.H, k Keeper, pfx string, params types.Params, bn uint64, maxDepth int) *vhDepositCase {
	c := &vhDepositCase{}
	version := uint32(h.Choose(pfx+"version", 0, 2))
	schn := h.Choose(pfx+"keyType", 0, 1) == 1
	if schn {
		c.key = &relayertypes.PublicKey{Key: &relayertypes.PublicKey_Schnorr{Schnorr: h.SchnorrKey(1)}}
	} else {
		kb := h.Bytes(pfx+"secpKey", 33)
		h.Assume(h.Either(kb[0] == 2, kb[0] == 3))
		c.key = &relayertypes.PublicKey{Key: &relayertypes.PublicKey_Secp256K1{Secp256K1: kb}}
	}
	evm := h.Bytes(pfx+"evm", 20)
	maxOut := 3
	c.nOut = h.Choose(pfx+"nOutputs", 1, maxOut)
	vout := uint32(h.Choose(pfx+"vout", 0, maxOut))
	// the script a correct depositor would pay to, for this version
	var want0, want1 []byte
	net := types.BitcoinNetworks[params.NetworkName]
	switch {
	case version == 1 && !schn:
		a, data, err := types.DepositAddressV1(c.key, params.DepositMagicPrefix, evm, net)
		vhMust(h, err)
		want0, _ = txscript.PayToAddrScript(a)
		want1 = data
	case version == 1:
		want0, want1 = make([]byte, 22), make([]byte, 26)
	default:
		a, err := types.DepositAddressV0(c.key, evm, net)
		vhMust(h, err)
		want0, _ = txscript.PayToAddrScript(a)
	}
	c.scriptGenuine = h.Bool(pfx + "genuineScript")
	values := make([]int64, c.nOut)
	scripts := make([][]byte, c.nOut)
	// version 1: outputs 0 and 1 carry (or not) the key-hash script and the data script whatever
	// output is designated; version 0/other: the designated output carries (or not) the v0 script
	g0, g1 := c.scriptGenuine, c.scriptGenuine
	if version == 1 {
		g0, g1 = h.Bool(pfx+"genuineOut0"), h.Bool(pfx+"genuineOut1")
		c.scriptGenuine = h.Both(g0, g1)
	}
	for i := 0; i < c.nOut; i++ {
		values[i] = int64(h.U64(h.Name(pfx+"value", i)) >> 1) // mined outputs are non-negative
		switch {
		case version == 1 && i == 0:
			scripts[i] = vhPick(h, g0, want0, h.Name(pfx+"script", i))
		case version == 1 && i == 1:
			scripts[i] = vhPick(h, g1, want1, h.Name(pfx+"script", i))
		case version != 1 && uint32(i) == vout:
			scripts[i] = vhPick(h, c.scriptGenuine, want0, h.Name(pfx+"script", i))
		default:
			scripts[i] = h.Bytes(h.Name(pfx+"script", i), 22)
		}
	}
	if int(vout) < c.nOut {
		c.value = uint64(values[vout])
	}
	tx := h.BtcTx(values, scripts)
	c.txid = goatcrypto.DoubleSHA256Sum(tx)
	c.depth = h.Choose(pfx+"depth", 0, maxDepth)
	c.path = h.Bytes(pfx+"path", 32*c.depth)
	idx := h.U32(pfx + "txIndex")
	c.rootGenuine = h.Bool(pfx + "genuineRoot")
	root := vhPick(h, c.rootGenuine, vhFold(c.txid, c.path, idx, c.depth), pfx+"root")
	c.header = append(append(append([]byte{}, h.Bytes(pfx+"headerVersion", 4)...), make([]byte, 32)...), append(root, make([]byte, 12)...)...)
	c.headers = map[uint64][]byte{bn: c.header}
	c.dep = &types.Deposit{Version: version, BlockNumber: bn, TxIndex: idx, NoWitnessTx: tx, OutputIndex: vout,
		IntermediateProof: c.path, EvmAddress: evm, RelayerPubkey: c.key}
	return c
}

// VH_C03_verify: a receipt is produced only for an SPV-proven, script-bound, matured,
// not-yet-credited deposit, and amount + tax == value with the stated tax formula.
func VH_C03_verify(h *vrt.H) {
	rk := &vhRelayer{HasKey: h.Bool("keyRegistered")}
	k, ctx := vhKeeper(h, rk)
	params := vhParams(h, "")
	params.DepositTaxRate, params.MaxDepositTax = 0, 0 // the tax arithmetic is decided separately (VH_C03_tax, integer encoding)
	vhMust(h, k.Params.Set(ctx, params))
	bn, tip := h.U64("blockNumber"), h.U64("tip")
	h.Assume(bn < 1<<62)
	maxDepth := 1
	if h.Thorough() {
		maxDepth = 3
	}
	c := vhDeposit(h, k, "", params, bn, maxDepth)
	vhMust(h, k.BlockTip.Set(ctx, tip))
	hasHash := h.Choose("blockHashStored", 0, 1) == 1
	c.hashGenuine = h.Bool("genuineBlockHash")
	if hasHash {
		vhMust(h, k.BlockHashes.Set(ctx, bn, vhPick(h, c.hashGenuine, goatcrypto.DoubleSHA256Sum(c.header), "storedHash")))
	}
	already := h.Choose("alreadyDeposited", 0, 1) == 1
	if already {
		vhMust(h, k.Deposited.Set(ctx, collections.Join(c.txid, c.dep.OutputIndex), h.U64("previousAmount")))
	}
	rcpt, err := k.VerifyDeposit(ctx, c.headers, c.dep)
	h.NoteBool("accepted", err == nil)
	if err != nil {
		h.Reach("refused")
		return
	}
	d := c.dep
	h.Assert(rk.HasKey, "relayer-key-registered")
	h.Assert(hasHash && c.hashGenuine, "header-hash-equals-voted-block-hash")
	h.Assert(c.rootGenuine && uint64(d.TxIndex) < uint64(1)<<uint(c.depth), "tx-hashes-into-the-header-merkle-root-at-its-position")
	h.Assert(d.TxIndex != 0 || tip >= bn+100, "coinbase-needs-100-blocks-above")
	h.Assert(!already, "credited-at-most-once")
	h.Assert(int(d.OutputIndex) < c.nOut && c.value >= params.MinDepositAmount, "designated-output-pays-at-least-the-minimum")
	h.Assert(c.scriptGenuine, "output-script-commits-to-key-and-evm-address")
	h.Assert(d.Version == 0 || (d.Version == 1 && d.OutputIndex == 0 && c.nOut >= 2), "version-shape")
	h.Assert(bytes.Equal(rcpt.Txid, c.txid) && rcpt.Txout == d.OutputIndex && bytes.Equal(rcpt.Address, d.EvmAddress), "receipt-names-this-output-and-address")
	h.NoteU64("amount", rcpt.Amount)
	h.Assert(rcpt.Tax == 0 && rcpt.Amount == c.value, "untaxed-deposit-credited-in-full")
	h.Reach("accepted")
}

// VH_C03_tax: the value-exactness consequences of the tax formula that need non-linear
// reasoning (tax < value, credited amount >= 1, no 64-bit overflow), decided in integer
// arithmetic with explicit mod 2^64. Everything except the output value and the bridge
// parameters is fixed (a genuine version-0 deposit), the real VerifyDeposit runs in full.
func VH_C03_tax(h *vrt.H) {
	rk := &vhRelayer{HasKey: true}
	k, ctx := vhKeeper(h, rk)
	params := vhParams(h, "")
	vhMust(h, k.Params.Set(ctx, params))
	key := &relayertypes.PublicKey{Key: &relayertypes.PublicKey_Secp256K1{Secp256K1: append([]byte{2}, make([]byte, 32)...)}}
	evm := make([]byte, 20)
	a, aerr := types.DepositAddressV0(key, evm, types.BitcoinNetworks[params.NetworkName])
	vhMust(h, aerr)
	script, _ := txscript.PayToAddrScript(a)
	value := h.U64("value")
	h.Assume(value < 1<<63)
	tx := h.BtcTx([]int64{int64(value)}, [][]byte{script})
	txid := goatcrypto.DoubleSHA256Sum(tx)
	header := append(append(make([]byte, 36), txid...), make([]byte, 12)...)
	bn := uint64(800000)
	vhMust(h, k.BlockHashes.Set(ctx, bn, goatcrypto.DoubleSHA256Sum(header)))
	vhMust(h, k.BlockTip.Set(ctx, bn+200))
	dep := &types.Deposit{Version: 0, BlockNumber: bn, TxIndex: 0, NoWitnessTx: tx, OutputIndex: 0, EvmAddress: evm, RelayerPubkey: key}
	rcpt, err := k.VerifyDeposit(ctx, map[uint64][]byte{bn: header}, dep)
	h.NoteBool("accepted", err == nil)
	if err != nil {
		h.Assert(value < params.MinDepositAmount, "genuine-deposit-refused-only-below-the-minimum")
		h.Reach("refused")
		return
	}
	h.NoteU64("tax", rcpt.Tax)
	h.NoteU64("amount", rcpt.Amount)
	h.Assert(value >= params.MinDepositAmount && value >= 1000, "no-dust-deposit-accepted")
	h.Assert(rcpt.Tax < value, "tax-smaller-than-value")
	h.Assert(rcpt.Amount >= 1, "credited-amount-never-zero")
	h.Assert(rcpt.Amount+rcpt.Tax == value, "amount-plus-tax-equals-value")
	if params.DepositTaxRate == 0 || value <= 10000 {
		h.Assert(rcpt.Tax == 0, "no-tax-without-rate-or-up-to-10000-sat")
	} else {
		full := (value / 10000) * params.DepositTaxRate
		exact := math.NewIntFromUint64(value / 10000).Mul(math.NewIntFromUint64(params.DepositTaxRate))
		h.Assert(exact.IsUint64() && exact.Equal(math.NewIntFromUint64(full)), "tax-product-does-not-overflow")
		if params.MaxDepositTax > 0 && full > params.MaxDepositTax {
			h.Assert(rcpt.Tax == params.MaxDepositTax, "tax-capped")
		} else {
			h.Assert(rcpt.Tax == full, "tax-is-rate-times-ten-thousandths")
		}
	}
	h.Reach("accepted")
}

// VH_C03_batch: NewDeposits credits each (txid, vout) once: a duplicate inside one batch or
// of an earlier batch fails the whole message; on success Deposited holds every item with
// its gross value and the hand-over queue grew by exactly the receipts, in order.
func VH_C03_batch(h *vrt.H) {
	rk := &vhRelayer{HasKey: true, VerifyErr: h.Bool("notProposer")}
	k, ctx := vhKeeper(h, rk)
	params := vhParams(h, "")
	vhMust(h, k.Params.Set(ctx, params))
	vhMust(h, k.EthTxQueue.Set(ctx, types.EthTxQueue{}))
	bn := uint64(800000)
	vhMust(h, k.BlockTip.Set(ctx, bn+200))
	a := vhDeposit(h, k, "a_", params, bn, 0)
	vhMust(h, k.BlockHashes.Set(ctx, bn, goatcrypto.DoubleSHA256Sum(a.header)))
	second := h.Choose("second", 0, 2) // 0: single item, 1: the same item again, 2: another output of the same tx
	deps := []*types.Deposit{a.dep}
	switch second {
	case 1:
		cp := *a.dep
		deps = append(deps, &cp)
	case 2:
		cp := *a.dep
		cp.OutputIndex = uint32(h.Choose("secondVout", 0, 2))
		deps = append(deps, &cp)
	}
	earlier := h.Choose("creditedEarlier", 0, 1) == 1
	if earlier {
		vhMust(h, k.Deposited.Set(ctx, collections.Join(a.txid, a.dep.OutputIndex), 1))
	}
	req := &types.MsgNewDeposits{Proposer: "p", BlockHeaders: []*types.BlockHeader{{Height: bn, Raw: a.header}}, Deposits: deps}
	_, err := (msgServer{Keeper: k}).NewDeposits(ctx, req)
	h.NoteBool("accepted", err == nil)
	q, qerr := k.EthTxQueue.Get(ctx)
	vhMust(h, qerr)
	if err != nil {
		h.Reach("refused")
		return
	}
	h.Assert(!rk.VerifyErr, "only-the-proposer-submits-deposits")
	h.Assert(!earlier, "credited-at-most-once-across-batches")
	h.Assert(len(q.Deposits) == len(deps), "queue-grew-by-the-receipts")
	for i, d := range deps {
		for j := 0; j < i; j++ {
			h.Assert(deps[j].OutputIndex != d.OutputIndex, "credited-at-most-once-inside-a-batch")
		}
		got, gerr := k.Deposited.Get(ctx, collections.Join(a.txid, d.OutputIndex))
		h.Assert(gerr == nil, "credited-item-is-recorded")
		if i < len(q.Deposits) {
			h.Assert(q.Deposits[i].Txout == d.OutputIndex && q.Deposits[i].Amount+q.Deposits[i].Tax == got, "recorded-gross-amount-and-queue-order")
		}
	}
	h.Reach("accepted")
}
