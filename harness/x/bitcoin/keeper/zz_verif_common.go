package keeper

import (
	"context"
	"errors"

	sdk "github.com/cosmos/cosmos-sdk/types"
	"github.com/goatnetwork/goat/x/bitcoin/types"
	relayer "github.com/goatnetwork/goat/x/relayer/types"
	"github.com/goatnetwork/goat/zzverif/vrt"
)

// vhRelayer is a harness stub of the RelayerKeeper interface: every answer is chosen
// by the harness (arbitrary within the documented contract) and every call is logged.
type vhRelayer struct {
	VerifyErr   bool   // VerifyProposal / VerifyNonProposal fail
	Sequence    uint64 // sequence VerifyProposal returns
	HasKey      bool
	HasKeyErr   bool
	Calls       []string
	SeqSet      []uint64
	KeysAdded   [][]byte
	RandaoCalls int
	VerifyFnErr bool
}

var errVhRelayer = errors.New("vh: relayer keeper refused")

func (r *vhRelayer) VerifyProposal(ctx context.Context, req relayer.IVoteMsg, verifyFn ...func(sigdoc []byte) error) (uint64, error) {
	r.Calls = append(r.Calls, "VerifyProposal:"+req.MethodName())
	if r.VerifyErr {
		return 0, errVhRelayer
	}
	for _, fn := range verifyFn {
		if err := fn(req.VoteSigDoc()); err != nil {
			r.VerifyFnErr = true
			return 0, err
		}
	}
	return r.Sequence, nil
}

func (r *vhRelayer) VerifyNonProposal(ctx context.Context, req relayer.INonVoteMsg) (relayer.IRelayer, error) {
	r.Calls = append(r.Calls, "VerifyNonProposal")
	if r.VerifyErr {
		return nil, errVhRelayer
	}
	return &relayer.Relayer{Proposer: req.GetProposer()}, nil
}

func (r *vhRelayer) UpdateRandao(ctx context.Context, req relayer.IVoteMsg) error {
	r.Calls = append(r.Calls, "UpdateRandao")
	r.RandaoCalls++
	return nil
}

func (r *vhRelayer) HasPubkey(ctx context.Context, raw []byte) (bool, error) {
	r.Calls = append(r.Calls, "HasPubkey")
	if r.HasKeyErr {
		return false, errVhRelayer
	}
	return r.HasKey, nil
}

func (r *vhRelayer) AddNewKey(ctx context.Context, raw []byte) error {
	r.Calls = append(r.Calls, "AddNewKey")
	r.KeysAdded = append(r.KeysAdded, raw)
	return nil
}

func (r *vhRelayer) SetProposalSeq(ctx context.Context, seq uint64) error {
	r.Calls = append(r.Calls, "SetProposalSeq")
	r.SeqSet = append(r.SeqSet, seq)
	return nil
}

// vhKeeper builds the REAL keeper on the harness store.
func vhKeeper(h *vrt.H, rk types.RelayerKeeper) (Keeper, sdk.Context) {
	k := NewKeeper(h.Codec(), h.AddressCodec(), h.StoreService(types.StoreKey), h.Logger(), rk)
	return k, h.Ctx()
}

func vhMust(h *vrt.H, err error) {
	if err != nil {
		panic("vh: harness state construction failed: " + err.Error())
	}
}

// vhParams returns arbitrary bridge parameters satisfying the safe-bounds invariant InvP.
func vhParams(h *vrt.H, pfx string) types.Params {
	p := types.Params{
		NetworkName:        "regtest",
		ConfirmationNumber: h.U64(pfx + "confirmations"),
		MinDepositAmount:   h.U64(pfx + "minDeposit"),
		DepositMagicPrefix: []byte("GTT0"),
		DepositTaxRate:     h.U64(pfx + "rate"),
		MaxDepositTax:      h.U64(pfx + "cap"),
	}
	h.Assume(types.InvP(p))
	return p
}
