package keeper

import (
	"github.com/ethereum/go-ethereum/core/types/goattypes"
	"github.com/goatnetwork/goat/x/bitcoin/types"
	"github.com/goatnetwork/goat/zzverif/vrt"
)

// VH_C20_step: one inductive step. From ANY stored parameters within safe bounds, ANY
// batch of tax / confirmation / min-deposit requests (arbitrary 64-bit values) leaves
// the parameters within safe bounds, and an out-of-range value leaves its field unchanged.
func VH_C20_step(h *vrt.H) {
	k, ctx := vhKeeper(h, &vhRelayer{})
	pre := vhParams(h, "pre_")
	vhMust(h, k.Params.Set(ctx, pre))

	maxReq := 2
	if h.Thorough() {
		maxReq = 3
	}
	var reqs goattypes.BridgeRequests
	nt := h.Choose("nTax", 0, maxReq)
	for i := 0; i < nt; i++ {
		reqs.DepositTax = append(reqs.DepositTax, &goattypes.DepositTaxRequest{Rate: h.U64(h.Name("taxRate", i)), Max: h.U64(h.Name("taxMax", i))})
	}
	nc := h.Choose("nConf", 0, maxReq)
	for i := 0; i < nc; i++ {
		reqs.Confirmation = append(reqs.Confirmation, &goattypes.ConfirmationNumberRequest{Number: h.U64(h.Name("conf", i))})
	}
	nm := h.Choose("nMin", 0, maxReq)
	for i := 0; i < nm; i++ {
		reqs.MinDeposit = append(reqs.MinDeposit, &goattypes.MinDepositRequest{Satoshi: h.U64(h.Name("min", i))})
	}

	err := k.ProcessBridgeRequest(ctx, reqs)
	h.Assert(err == nil, "param-requests-never-fail")
	post, gerr := k.Params.Get(ctx)
	vhMust(h, gerr)
	h.NoteU64("postRate", post.DepositTaxRate)
	h.NoteU64("postMin", post.MinDepositAmount)
	h.NoteU64("postConf", post.ConfirmationNumber)

	h.Assert(types.InvP(post), "params-stay-within-safe-bounds")

	// reference model of the three guards, written from the property statement
	wantRate, wantMin, wantConf := pre.DepositTaxRate, pre.MinDepositAmount, pre.ConfirmationNumber
	for _, r := range reqs.DepositTax {
		if r.Rate < 10000 {
			wantRate = r.Rate
		}
	}
	for _, r := range reqs.Confirmation {
		if r.Number >= 1 {
			wantConf = r.Number
		}
	}
	for _, r := range reqs.MinDeposit {
		if r.Satoshi > 1000 {
			wantMin = r.Satoshi
		}
	}
	h.Assert(post.DepositTaxRate == wantRate, "rate-updated-iff-in-range")
	h.Assert(post.ConfirmationNumber == wantConf, "confirmations-updated-iff-in-range")
	h.Assert(post.MinDepositAmount == wantMin, "min-deposit-updated-iff-in-range")
	h.Assert(post.NetworkName == pre.NetworkName && string(post.DepositMagicPrefix) == string(pre.DepositMagicPrefix), "other-params-untouched")
	h.Reach("end")
}
