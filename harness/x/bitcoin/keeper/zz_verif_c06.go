package keeper

import (
	"bytes"

	ethtypes "github.com/ethereum/go-ethereum/core/types"
	"github.com/goatnetwork/goat/x/bitcoin/types"
	"github.com/goatnetwork/goat/zzverif/vrt"
)

func vhSameTx(a, b *ethtypes.Transaction) bool {
	return a.Nonce() == b.Nonce() && bytes.Equal(a.Data(), b.Data())
}

// VH_C06_dequeue_bitcoin: the hand-over of bridge system transactions is exactly-once,
// ordered and gap-free: output = [next block hash if the cursor is behind the tip] ++ first
// <=8 deposits ++ first <=8 paid ++ refunds up to the shared cap of 8; consecutive nonces;
// the queue keeps the exact suffix; nothing is written when nothing is due.
func VH_C06_dequeue_bitcoin(h *vrt.H) {
	maxQ := 9
	if h.Thorough() {
		maxQ = 12
	}
	k, ctx := vhKeeper(h, &vhRelayer{})
	nDep, nPaid, nRej := h.Choose("deposits", 0, maxQ), h.Choose("paid", 0, maxQ), h.Choose("refunds", 0, maxQ)
	var q types.EthTxQueue
	q.BlockNumber = h.U64("cursor")
	for i := 0; i < nDep; i++ {
		q.Deposits = append(q.Deposits, &types.DepositExecReceipt{Txid: make([]byte, 32), Txout: uint32(i), Address: make([]byte, 20), Amount: uint64(1000 + i)})
	}
	for i := 0; i < nPaid; i++ {
		q.PaidWithdrawals = append(q.PaidWithdrawals, &types.WithdrawalExecReceipt{Id: uint64(2000 + i), Receipt: &types.WithdrawalReceipt{Txid: make([]byte, 32), Amount: uint64(i)}})
	}
	for i := 0; i < nRej; i++ {
		q.RejectedWithdrawals = append(q.RejectedWithdrawals, uint64(3000+i))
	}
	vhMust(h, k.EthTxQueue.Set(ctx, q))
	nonce, tip := h.U64("nonce"), h.U64("tip")
	h.Assume(nonce < 1<<62)
	h.Assume(q.BlockNumber <= tip) // Inv_B: the cursor never runs ahead of the tip
	vhMust(h, k.EthTxNonce.Set(ctx, nonce))
	vhMust(h, k.BlockTip.Set(ctx, tip))
	nextHash := h.Bytes("nextHash", 32)
	if q.BlockNumber < tip {
		vhMust(h, k.BlockHashes.Set(ctx, q.BlockNumber+1, nextHash))
	}
	txs, err := k.DequeueBitcoinModuleTx(ctx)
	h.Assert(err == nil, "dequeue-never-fails")
	if err != nil {
		return
	}
	// reference
	var want []*ethtypes.Transaction
	n := nonce
	if q.BlockNumber < tip {
		want = append(want, types.NewBitcoinHashEthTx(n, nextHash))
		n++
	}
	dDep, dPaid := min(nDep, 8), min(nPaid, 8)
	dRej := min(nRej, 8-dPaid)
	for i := 0; i < dDep; i++ {
		want = append(want, q.Deposits[i].EthTx(n))
		n++
	}
	for i := 0; i < dPaid; i++ {
		want = append(want, q.PaidWithdrawals[i].EthTx(n))
		n++
	}
	for i := 0; i < dRej; i++ {
		want = append(want, types.NewRejectEthTx(q.RejectedWithdrawals[i], n))
		n++
	}
	h.Assert(len(txs) == len(want), "hands-over-exactly-the-due-transactions")
	for i := 0; i < len(txs) && i < len(want); i++ {
		h.Assert(vhSameTx(txs[i], want[i]), "hand-over-order-kind-and-consecutive-nonces")
	}
	post, perr := k.EthTxQueue.Get(ctx)
	vhMust(h, perr)
	n2, _ := k.EthTxNonce.Peek(ctx)
	h.Assert(n2 == nonce+uint64(len(want)), "nonce-advances-by-the-number-handed-over")
	h.Assert(len(post.Deposits) == nDep-dDep && len(post.PaidWithdrawals) == nPaid-dPaid && len(post.RejectedWithdrawals) == nRej-dRej, "queue-keeps-the-rest")
	for i := range post.Deposits {
		h.Assert(post.Deposits[i].Txout == q.Deposits[dDep+i].Txout, "remaining-deposits-are-the-exact-suffix")
	}
	for i := range post.PaidWithdrawals {
		h.Assert(post.PaidWithdrawals[i].Id == q.PaidWithdrawals[dPaid+i].Id, "remaining-paid-are-the-exact-suffix")
	}
	for i := range post.RejectedWithdrawals {
		h.Assert(post.RejectedWithdrawals[i] == q.RejectedWithdrawals[dRej+i], "remaining-refunds-are-the-exact-suffix")
	}
	if q.BlockNumber < tip {
		h.Assert(post.BlockNumber == q.BlockNumber+1, "block-hash-cursor-advances-by-one")
	} else {
		h.Assert(post.BlockNumber == q.BlockNumber, "block-hash-cursor-stays")
	}
	h.Reach("end")
}
