package keeper

import (
	"errors"

	"cosmossdk.io/collections"
	"github.com/btcsuite/btcd/txscript"
	sdk "github.com/cosmos/cosmos-sdk/types"
	sdkerrors "github.com/cosmos/cosmos-sdk/types/errors"
	goatcrypto "github.com/goatnetwork/goat/pkg/crypto"
	"github.com/goatnetwork/goat/x/bitcoin/types"
	relayertypes "github.com/goatnetwork/goat/x/relayer/types"
	"github.com/goatnetwork/goat/zzverif/vrt"
)

func vhKeeperNamed(h *vrt.H, name string, rk types.RelayerKeeper) Keeper {
	return NewKeeper(h.Codec(), h.AddressCodec(), h.StoreService(name), h.Logger(), rk)
}

// vhErrClass: the result code class of a handler error (what ends up in the tx result).
func vhErrClass(err error) int {
	switch {
	case err == nil:
		return 0
	case errors.Is(err, sdkerrors.ErrInvalidRequest):
		return 1
	case errors.Is(err, collections.ErrNotFound):
		return 2
	}
	return 3
}

// VH_C07_deposits: a deposit message carries its block headers as a height -> header map.
// The same message executed on two identical stores must give the same result code, the same
// gas and the same state whatever order Go picks when (if) that map is ranged over - also
// when the message fails part-way (unvoted height, header not matching the voted hash).
func VH_C07_deposits(h *vrt.H) {
	ka, kb := vhKeeperNamed(h, "bitcoinA", &vhRelayer{HasKey: true}), vhKeeperNamed(h, "bitcoinB", &vhRelayer{HasKey: true})
	ctx := h.Ctx()
	// what the deposits are is not the point here: concrete parameters, genuine scripts and
	// proofs; the amounts (too low or not, equal or not) and what is voted for each height vary
	params := types.Params{NetworkName: "regtest", ConfirmationNumber: 6, MinDepositAmount: 10000, DepositMagicPrefix: []byte("GTT0"), DepositTaxRate: 10, MaxDepositTax: 100000}
	bn := uint64(800000)
	nHdr := 2
	if h.Thorough() {
		nHdr = h.Choose("nHeaders", 2, 3)
	}
	// one plain deposit (version 0, one output, a one-transaction block) per header
	kbs := h.Bytes("secpKey", 33)
	h.Assume(h.Either(kbs[0] == 2, kbs[0] == 3))
	key := &relayertypes.PublicKey{Key: &relayertypes.PublicKey_Secp256K1{Secp256K1: kbs}}
	evm := h.Bytes("evm", 20)
	addr, aerr := types.DepositAddressV0(key, evm, types.BitcoinNetworks[params.NetworkName])
	vhMust(h, aerr)
	want, _ := txscript.PayToAddrScript(addr)
	script := want
	var hdrs []*types.BlockHeader
	var deps []*types.Deposit
	voted := make([]int, nHdr)
	votedHash := make([][]byte, nHdr)
	txids := make([][]byte, nHdr)
	for i := 0; i < nHdr; i++ {
		// equal values give the same transaction twice (a duplicate inside the batch)
		tx := h.BtcTx([]int64{int64(h.U64(h.Name("value", i)) >> 1)}, [][]byte{script})
		txid := goatcrypto.DoubleSHA256Sum(tx)
		txids[i] = txid
		root := txid
		raw := append(append(append([]byte{}, h.Bytes(h.Name("headerVersion", i), 4)...), make([]byte, 32)...), append(root, make([]byte, 12)...)...)
		hdrs = append(hdrs, &types.BlockHeader{Height: bn + uint64(i), Raw: raw})
		deps = append(deps, &types.Deposit{Version: 0, BlockNumber: bn + uint64(i), TxIndex: 0, NoWitnessTx: tx, OutputIndex: 0, EvmAddress: evm, RelayerPubkey: key})
		voted[i] = h.Choose(h.Name("voted", i), 0, 2) // not voted / voted with this header's hash / voted with another hash
		votedHash[i] = goatcrypto.DoubleSHA256Sum(raw)
		if voted[i] == 2 {
			votedHash[i] = h.Bytes(h.Name("otherVotedHash", i), 32)
		}
	}
	for _, k := range []Keeper{ka, kb} {
		vhMust(h, k.Params.Set(ctx, params))
		vhMust(h, k.EthTxQueue.Set(ctx, types.EthTxQueue{}))
		vhMust(h, k.BlockTip.Set(ctx, bn+200))
		for i := 0; i < nHdr; i++ {
			if voted[i] != 0 {
				vhMust(h, k.BlockHashes.Set(ctx, bn+uint64(i), votedHash[i]))
			}
		}
	}
	req := &types.MsgNewDeposits{Proposer: "p", BlockHeaders: hdrs, Deposits: deps}
	g0 := h.GasUsed(ctx)
	_, errA := (msgServer{Keeper: ka}).NewDeposits(ctx, req)
	g1 := h.GasUsed(ctx)
	_, errB := (msgServer{Keeper: kb}).NewDeposits(ctx, req)
	g2 := h.GasUsed(ctx)
	h.NoteBool("acceptedA", errA == nil)
	h.Assert(vhErrClass(errA) == vhErrClass(errB), "same-result-code-under-any-map-order")
	h.Assert(g1-g0 == g2-g1, "same-gas-under-any-map-order")
	qa, ea := ka.EthTxQueue.Get(ctx)
	vhMust(h, ea)
	qb, eb := kb.EthTxQueue.Get(ctx)
	vhMust(h, eb)
	h.Assert(len(qa.Deposits) == len(qb.Deposits), "same-queue-under-any-map-order")
	for _, txid := range txids {
		ha, _ := ka.Deposited.Has(ctx, collections.Join(txid, uint32(0)))
		hb, _ := kb.Deposited.Has(ctx, collections.Join(txid, uint32(0)))
		h.Assert(ha == hb, "same-credit-record-under-any-map-order")
	}
	h.Reach("end")
}

var _ sdk.Context
