package keeper

import (
	"bytes"

	"cosmossdk.io/math"
	ethtypes "github.com/ethereum/go-ethereum/core/types"
	"github.com/goatnetwork/goat/x/locking/types"
	"github.com/goatnetwork/goat/zzverif/vrt"
)

// VH_C06_dequeue_locking: rewards first (<=16), then unlocks (<=16), consecutive nonces,
// exact suffix kept, nothing written when both queues are empty.
func VH_C06_dequeue_locking(h *vrt.H) {
	k, ctx := vhKeeper(h)
	maxQ := 17
	if h.Thorough() {
		maxQ = 24
	}
	nRew, nUnl := h.Choose("rewards", 0, maxQ), h.Choose("unlocks", 0, maxQ)
	var q types.EthTxQueue
	for i := 0; i < nRew; i++ {
		q.Rewards = append(q.Rewards, &types.Reward{Id: uint64(100 + i), Recipient: make([]byte, 20), Goat: math.NewInt(int64(i)), Gas: math.NewInt(1)})
	}
	for i := 0; i < nUnl; i++ {
		q.Unlocks = append(q.Unlocks, &types.Unlock{Id: uint64(500 + i), Recipient: make([]byte, 20), Token: make([]byte, 20), Amount: math.NewInt(int64(i))})
	}
	vhMust(k.EthTxQueue.Set(ctx, q))
	nonce := h.U64("nonce")
	h.Assume(nonce < 1<<62)
	vhMust(k.EthTxNonce.Set(ctx, nonce))
	txs, err := k.DequeueLockingModuleTx(ctx)
	h.Assert(err == nil, "dequeue-never-fails")
	if err != nil {
		return
	}
	var want []*ethtypes.Transaction
	n := nonce
	dRew, dUnl := min(nRew, 16), min(nUnl, 16)
	for i := 0; i < dRew; i++ {
		want = append(want, q.Rewards[i].EthTx(n))
		n++
	}
	for i := 0; i < dUnl; i++ {
		want = append(want, q.Unlocks[i].EthTx(n))
		n++
	}
	h.Assert(len(txs) == len(want), "hands-over-exactly-the-due-transactions")
	for i := 0; i < len(txs) && i < len(want); i++ {
		h.Assert(txs[i].Nonce() == want[i].Nonce() && bytes.Equal(txs[i].Data(), want[i].Data()), "hand-over-order-kind-and-consecutive-nonces")
	}
	post, perr := k.EthTxQueue.Get(ctx)
	vhMust(perr)
	n2, _ := k.EthTxNonce.Peek(ctx)
	h.Assert(n2 == nonce+uint64(len(want)), "nonce-advances-by-the-number-handed-over")
	h.Assert(len(post.Rewards) == nRew-dRew && len(post.Unlocks) == nUnl-dUnl, "queue-keeps-the-rest")
	for i := range post.Rewards {
		h.Assert(post.Rewards[i].Id == q.Rewards[dRew+i].Id, "remaining-rewards-are-the-exact-suffix")
	}
	for i := range post.Unlocks {
		h.Assert(post.Unlocks[i].Id == q.Unlocks[dUnl+i].Id, "remaining-unlocks-are-the-exact-suffix")
	}
	h.Reach("end")
}
