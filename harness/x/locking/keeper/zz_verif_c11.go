package keeper

import (
	"cosmossdk.io/core/comet"
	"cosmossdk.io/math"
	abci "github.com/cometbft/cometbft/abci/types"
	cmtproto "github.com/cometbft/cometbft/proto/tendermint/types"
	"github.com/ethereum/go-ethereum/core/types/goattypes"
	"github.com/goatnetwork/goat/x/locking/types"
	"github.com/goatnetwork/goat/zzverif/vrt"
)

// One inductive step per entry point from an arbitrary Inv_L state (1 validator quick / 2
// thorough, one token): the ledger equation  Δheld + Δslashed + Δreleased = Δlocked-in
// holds, nothing is negative, one unlock releases min(requested, held), a slash takes
// floor(held*f) (all of it when that is 0), and Inv_L is re-established.

func vhUniverse(h *vrt.H) (int, []uint64) {
	n := 1
	if h.Thorough() {
		n = 2
	}
	w := []uint64{0, 1, 3_000_000_000_000_000_000}[h.Choose("weight", 0, 2)]
	return n, []uint64{w}
}

func vhLedger(h *vrt.H, st *vhState, pre, post *vhSnap, lockedIn []math.Int, label string) {
	for j, tk := range st.Tokens {
		dHeld := math.ZeroInt()
		for i := 0; i < st.N; i++ {
			dHeld = dHeld.Add(post.Val[i].Locking.AmountOf(tk.Denom)).Sub(pre.Val[i].Locking.AmountOf(tk.Denom))
		}
		dSl := post.Slashed[j].Sub(pre.Slashed[j])
		dRel := post.Released[j].Sub(pre.Released[j])
		h.Assert(dHeld.Add(dSl).Add(dRel).Equal(lockedIn[j]), label)
		h.Assert(!dSl.IsNegative() && !dRel.IsNegative() && !post.Slashed[j].IsNegative(), "slashed-and-released-never-decrease")
	}
}

func VH_C11_lock(h *vrt.H) {
	n, ws := vhUniverse(h)
	k, ctx := vhKeeper(h)
	st := vhBuild(h, k, ctx, n, 1, ws)
	pre := vhSnapshot(h, k, ctx, st)
	target := h.Choose("target", 0, n) // n = an address without a record
	amt := h.Big("amount", "0", vhBig)
	err := k.Lock(ctx, []*goattypes.LockRequest{{Validator: vhEthAddr(vhAddr(target)), Token: st.Tokens[0].Addr, Amount: amt}})
	h.NoteBool("ok", err == nil)
	if err != nil {
		h.Reach("refused")
		return
	}
	post := vhSnapshot(h, k, ctx, st)
	h.Assert(target < n, "lock-to-unknown-validator-refused")
	vhLedger(h, st, pre, post, []math.Int{math.NewIntFromBigInt(amt)}, "lock-adds-exactly-the-amount-to-holdings")
	vhCheckInvL(h, k, ctx, st)
	h.Reach("locked")
}

func VH_C11_unlock(h *vrt.H) {
	n, ws := vhUniverse(h)
	k, ctx := vhKeeper(h)
	st := vhBuild(h, k, ctx, n, 1, ws)
	pre := vhSnapshot(h, k, ctx, st)
	target := h.Choose("target", 0, n-1)
	amt := h.Big("amount", "0", vhBig)
	req := &goattypes.UnlockRequest{Id: h.U64("id"), Validator: vhEthAddr(vhAddr(target)), Token: st.Tokens[0].Addr, Amount: amt}
	err := k.Unlock(ctx, []*goattypes.UnlockRequest{req})
	h.NoteBool("ok", err == nil)
	if err != nil {
		h.Reach("refused")
		return
	}
	post := vhSnapshot(h, k, ctx, st)
	vhLedger(h, st, pre, post, []math.Int{math.ZeroInt()}, "unlock-moves-holdings-to-released")
	held := pre.Val[target].Locking.AmountOf(st.Tokens[0].Denom)
	released := post.Released[0].Sub(pre.Released[0])
	h.Assert(released.Equal(math.MinInt(held, math.NewIntFromBigInt(amt))), "unlock-releases-min-of-requested-and-held")
	h.Assert(post.NQueued == pre.NQueued+1, "one-queue-entry-per-unlock")
	vhCheckInvL(h, k, ctx, st)
	h.Reach("unlocked")
}

func VH_C11_slash_downtime(h *vrt.H) {
	n, ws := vhUniverse(h)
	k, ctx := vhKeeper(h)
	st := vhBuild(h, k, ctx, n, 1, ws)
	pre := vhSnapshot(h, k, ctx, st)
	target := h.Choose("target", 0, n-1)
	flag := cmtproto.BlockIDFlag(h.Choose("flag", 1, 3))
	ctx = ctx.WithVoteInfos([]abci.VoteInfo{{Validator: abci.Validator{Address: vhAddr(target), Power: 1}, BlockIdFlag: flag}})
	err := k.HandleVoteInfos(ctx)
	h.Assert(err == nil, "vote-handling-never-fails")
	if err != nil {
		return
	}
	post := vhSnapshot(h, k, ctx, st)
	vhLedger(h, st, pre, post, []math.Int{math.ZeroInt()}, "downtime-slash-moves-holdings-to-slashed")
	held := pre.Val[target].Locking.AmountOf(st.Tokens[0].Denom)
	slash := post.Slashed[0].Sub(pre.Slashed[0])
	h.Assert(post.Released[0].Equal(pre.Released[0]), "slash-releases-nothing")
	if post.Val[target].Status != pre.Val[target].Status {
		// 1 % downtime fraction: floor(held/100), or everything when that is zero
		want := held.Quo(math.NewInt(100))
		h.Assert(slash.Equal(want) || (want.IsZero() && slash.Equal(held)), "downtime-slash-is-the-fraction-or-all-dust")
		h.Reach("jailed")
	} else {
		h.Assert(slash.IsZero(), "no-slash-without-demotion")
		h.Reach("not-jailed")
	}
	vhCheckInvL(h, k, ctx, st)
}

func VH_C11_slash_evidence(h *vrt.H) {
	n, ws := vhUniverse(h)
	k, ctx := vhKeeper(h)
	st := vhBuild(h, k, ctx, n, 1, ws)
	pre := vhSnapshot(h, k, ctx, st)
	target := h.Choose("target", 0, n-1)
	ev := vhEvidence{typ: comet.MisbehaviorType(h.Choose("evType", 0, 3)), addr: vhAddr(target), height: 5}
	ctx = ctx.WithBlockHeight(10).WithCometInfo(vhBlockInfo{ev: vhEvidenceList{ev}})
	err := k.HandleEvidences(ctx)
	h.Assert(err == nil, "evidence-handling-never-fails")
	if err != nil {
		return
	}
	post := vhSnapshot(h, k, ctx, st)
	vhLedger(h, st, pre, post, []math.Int{math.ZeroInt()}, "evidence-slash-moves-holdings-to-slashed")
	held := pre.Val[target].Locking.AmountOf(st.Tokens[0].Denom)
	slash := post.Slashed[0].Sub(pre.Slashed[0])
	if post.Val[target].Status != pre.Val[target].Status {
		want := held.Quo(math.NewInt(20)) // 5 % double-sign fraction
		h.Assert(slash.Equal(want) || (want.IsZero() && slash.Equal(held)), "evidence-slash-is-the-fraction-or-all-dust")
		h.Assert(post.Val[target].Status == types.Tombstoned, "evidence-tombstones")
		h.Reach("tombstoned")
	} else {
		h.Assert(slash.IsZero(), "no-slash-without-tombstoning")
		h.Reach("unchanged")
	}
	vhCheckInvL(h, k, ctx, st)
}

func VH_C11_weight(h *vrt.H) {
	// one validator in both tiers (two did not finish in 25 minutes: the re-ranking of every
	// holder multiplies the paths); the thorough tier widens the weights instead
	_, ws := vhUniverse(h)
	n := 1
	k, ctx := vhKeeper(h)
	st := vhBuild(h, k, ctx, n, 1, ws)
	pre := vhSnapshot(h, k, ctx, st)
	newWeights := []uint64{0, 1, 2, 3_000_000_000_000_000_000}
	if h.Thorough() {
		newWeights = append(newWeights, 1_000_000_000, 1_000_000_000_000_000_000)
	}
	nw := newWeights[h.Choose("newWeight", 0, len(newWeights)-1)]
	var err error
	// a weight drop whose power difference exceeds 64 bits panics in math.Int.Uint64();
	// message handlers run under baseapp's recover, the transaction fails and is rolled back
	if h.Panics(func() {
		err = k.UpdateTokens(ctx, []*goattypes.UpdateTokenWeightRequest{{Token: st.Tokens[0].Addr, Weight: nw}}, nil)
	}) {
		h.Reach("panicked-recovered-by-runtx")
		return
	}
	h.NoteBool("ok", err == nil)
	if err != nil {
		h.Reach("refused")
		return
	}
	post := vhSnapshot(h, k, ctx, st)
	vhLedger(h, st, pre, post, []math.Int{math.ZeroInt()}, "weight-change-moves-no-funds")
	st.Tokens[0].Weight = nw
	vhCheckInvL(h, k, ctx, st)
	h.Reach("updated")
}
