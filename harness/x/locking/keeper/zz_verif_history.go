package keeper

import (
	"context"

	cryptotypes "github.com/cosmos/cosmos-sdk/crypto/types"
	"time"

	"cosmossdk.io/math"
	abci "github.com/cometbft/cometbft/abci/types"
	cmtproto "github.com/cometbft/cometbft/proto/tendermint/types"
	"github.com/cosmos/cosmos-sdk/crypto/keys/secp256k1"
	sdk "github.com/cosmos/cosmos-sdk/types"
	"github.com/ethereum/go-ethereum/core/types/goattypes"
	goatcrypto "github.com/goatnetwork/goat/pkg/crypto"
	"github.com/goatnetwork/goat/x/locking/types"
	"github.com/goatnetwork/goat/zzverif/vrt"
)

const vhHistoryLen = 3

type vhNoAccounts struct{}

func (vhNoAccounts) GetAccount(context.Context, sdk.AccAddress) sdk.AccountI { return nil }
func (vhNoAccounts) HasAccount(context.Context, sdk.AccAddress) bool         { return false }
func (vhNoAccounts) SetAccount(context.Context, sdk.AccountI)                {}
func (vhNoAccounts) RemoveAccount(ctx context.Context, acc sdk.AccountI)     {}
func (vhNoAccounts) NewAccountWithAddress(ctx context.Context, addr sdk.AccAddress) sdk.AccountI {
	return &vhAcc{}
}

type vhAcc struct{ sdk.AccountI }

func (a *vhAcc) SetPubKey(pk cryptotypes.PubKey) error { return nil }

// VH_C13_history: a bounded run from an empty chain: token configured, validator created,
// then a history of 3 operations chosen among lock / unlock / missed vote / EndBlocker
// with arbitrary amounts. After every step the mid-block invariant Inv_L must hold and
// after every EndBlocker the reported updates must be acceptable. This anchors the
// inductive harnesses: the invariant they assume is the one real histories establish.
func VH_C13_history(h *vrt.H) {
	k := NewKeeper(h.Codec(), h.AddressCodec(), h.StoreService(types.StoreKey), vhNoAccounts{}, h.Logger())
	ctx := h.Ctx().WithBlockHeight(5).WithBlockTime(time.Unix(1_700_000_000, 0).UTC())
	params := vhParams()
	params.MaxValidators = 1
	params.MaxMissedPerWindow, params.SignedBlocksWindow = 1, 3
	vhMust(k.Params.Set(ctx, params))
	vhMust(k.EthTxQueue.Set(ctx, types.EthTxQueue{}))
	vhMust(k.RewardPool.Set(ctx, types.RewardPool{Goat: math.ZeroInt(), Gas: math.ZeroInt(), Remain: math.ZeroInt()}))
	vhMust(k.Threshold.Set(ctx, types.Threshold{}))
	weight := []uint64{0, 1, 2_000_000_000_000_000_000}[h.Choose("weight", 0, 2)]
	thr := h.Big("threshold", "0", vhBig)
	vhMust(k.UpdateTokens(ctx, []*goattypes.UpdateTokenWeightRequest{{Weight: weight}}, []*goattypes.UpdateTokenThresholdRequest{{Threshold: thr}}))
	// the validator: address = HASH160(compressed key)
	var raw [64]byte
	raw[31], raw[63] = 7, 2
	key := goatcrypto.CompressP256k1Pubkey(raw)
	addr := sdk.ConsAddress((&secp256k1.PubKey{Key: key}).Address())
	create := &goattypes.CreateRequest{Pubkey: raw}
	copy(create.Validator[:], addr)
	vhMust(k.Create(ctx, []*goattypes.CreateRequest{create}))
	st := &vhState{N: 1, K: 1, Tokens: []vhToken{{Denom: "btc", Weight: weight, Threshold: math.NewIntFromBigInt(thr)}}}
	eth := vhEthAddr(addr)
	check := func(step string) {
		vhCheckInvLAt(h, k, ctx, st, []sdk.ConsAddress{addr})
	}
	check("created")
	for s := 0; s < vhHistoryLen; s++ {
		switch h.Choose(h.Name("op", s), 0, 3) {
		case 0:
			amt := h.Big(h.Name("lockAmount", s), "0", vhBig)
			gained := math.NewIntFromUint64(2_000_000_000_000_000_000).Mul(math.NewIntFromBigInt(amt)).Quo(math.NewIntFromUint64(1_000_000_000_000_000_000))
			h.Assume(gained.LT(math.NewInt(cmtMaxTotalVotingPower / 8))) // below the known unbounded-power region
			if err := k.Lock(ctx, []*goattypes.LockRequest{{Validator: eth, Amount: amt}}); err != nil {
				h.Assert(false, "history-lock-never-fails")
			}
		case 1:
			if err := k.Unlock(ctx, []*goattypes.UnlockRequest{{Id: uint64(s), Validator: eth, Amount: h.Big(h.Name("unlockAmount", s), "0", vhBig)}}); err != nil {
				h.Assert(false, "history-unlock-never-fails")
			}
		case 2:
			err := k.HandleVoteInfos(ctx.WithVoteInfos([]abci.VoteInfo{{Validator: abci.Validator{Address: addr, Power: 1}, BlockIdFlag: cmtproto.BlockIDFlagAbsent}}))
			h.Assert(err == nil, "history-votes-never-fail")
		case 3:
			vhCheckEndBlockAt(h, k, ctx, []sdk.ConsAddress{addr}, [][]byte{key}, 1)
		}
		check("step")
	}
	h.Reach("end")
}
