package keeper

import (
	"time"

	"cosmossdk.io/collections"
	"cosmossdk.io/math"
	"github.com/ethereum/go-ethereum/core/types/goattypes"
	"github.com/goatnetwork/goat/x/locking/types"
	"github.com/goatnetwork/goat/zzverif/vrt"
)

// VH_C15_unlock: the maturity time queued for an unlock is now + UnlockDuration, or
// now + ExitingDuration when the validator is exiting (already inactive/tombstoned, or
// dropping below the token threshold); an exiting validator leaves the candidate set at
// once with zero power, its remaining funds stay in its record.
func VH_C15_unlock(h *vrt.H) {
	n, ws := vhUniverse(h)
	k, ctx := vhKeeper(h)
	st := vhBuild(h, k, ctx, n, 1, ws)
	now := time.Unix(int64(h.U32("now")), int64(h.U32("nowNanos")%1_000_000_000)).UTC()
	ctx = ctx.WithBlockTime(now)
	// the two delays and the jail time are whatever the module's own validity rule admits
	p := vhParams()
	p.MaxValidators = st.K
	p.UnlockDuration = time.Duration(h.U64("unlockDuration") >> 8)
	p.ExitingDuration = time.Duration(h.U64("exitingDuration") >> 8)
	p.DowntimeJailDuration = time.Duration(h.U64("jailDuration") >> 8)
	h.Assume(p.Validate() == nil)
	vhMust(k.Params.Set(ctx, p))
	target := h.Choose("target", 0, n-1)
	pre := vhSnapshot(h, k, ctx, st)
	amt := h.Big("amount", "0", vhBig)
	req := &goattypes.UnlockRequest{Id: h.U64("id"), Validator: vhEthAddr(vhAddr(target)), Token: st.Tokens[0].Addr, Amount: amt}
	copy(req.Recipient[:], h.Bytes("recipient", 20))
	err := k.Unlock(ctx, []*goattypes.UnlockRequest{req})
	h.NoteBool("ok", err == nil)
	if err != nil {
		h.Reach("refused")
		return
	}
	a := pre.Val[target]
	held := a.Locking.AmountOf("btc")
	released := math.MinInt(held, math.NewIntFromBigInt(amt))
	remaining := held.Sub(released)
	exiting := a.Status == types.Inactive || a.Status == types.Tombstoned || remaining.LT(st.Tokens[0].Threshold)
	want := now.Add(p.UnlockDuration)
	if exiting {
		want = now.Add(p.ExitingDuration)
	}
	q, qerr := k.UnlockQueue.Get(ctx, want)
	h.Assert(qerr == nil && len(q.Unlocks) == 1, "queued-under-the-right-maturity-time")
	if qerr == nil && len(q.Unlocks) == 1 {
		u := q.Unlocks[0]
		h.Assert(u.Id == req.Id && u.Amount.Equal(released) && string(u.Recipient) == string(req.Recipient[:]) && string(u.Token) == string(req.Token[:]), "queued-entry-carries-the-request")
	}
	b, verr := k.Validators.Get(ctx, vhAddr(target))
	vhMust(verr)
	h.Assert(b.Locking.AmountOf("btc").Equal(remaining), "remaining-funds-stay-in-the-record")
	if exiting {
		h.Assert(b.Power == 0, "exiting-validator-has-zero-power")
		h.Assert(b.Status == types.Inactive || (a.Status == types.Tombstoned && b.Status == types.Tombstoned), "exiting-validator-becomes-inactive")
		inRank, _ := k.PowerRanking.Has(ctx, collections.Join(a.Power, vhAddr(target)))
		inIdx, _ := k.Locking.Has(ctx, collections.Join("btc", vhAddr(target)))
		h.Assert(!inRank && !inIdx, "exiting-validator-leaves-ranking-and-index")
		h.Reach("exiting")
	} else {
		h.Assert(b.Status == a.Status, "partial-unlock-keeps-status")
		h.Reach("partial")
	}
	h.Assert(p.ExitingDuration >= p.UnlockDuration, "an-exit-never-matures-before-an-ordinary-unlock-of-the-same-block")
	vhCheckInvL(h, k, ctx, st)
}

// VH_C15_sweep: DequeueMatureUnlocks moves exactly the entries whose key is <= now to the
// hand-over queue, ascending by key and in insertion order within a key, deletes them and
// touches nothing else.
func VH_C15_sweep(h *vrt.H) {
	k, ctx := vhKeeper(h)
	vhMust(k.Params.Set(ctx, vhParams()))
	nKeys := 2
	if h.Thorough() {
		nKeys = 3
	}
	pre := types.EthTxQueue{}
	if h.Choose("handoverAlreadyHasOne", 0, 1) == 1 {
		pre.Unlocks = append(pre.Unlocks, &types.Unlock{Id: 999, Amount: math.NewInt(1)})
	}
	vhMust(k.EthTxQueue.Set(ctx, pre))
	now := time.Unix(int64(h.U32("now")), 0).UTC()
	ctx = ctx.WithBlockTime(now)
	keys := make([]time.Time, nKeys)
	counts := make([]int, nKeys)
	id := uint64(1)
	for i := 0; i < nKeys; i++ {
		keys[i] = time.Unix(int64(h.U32(h.Name("key", i))), 0).UTC()
		for j := 0; j < i; j++ {
			h.Assume(!keys[i].Equal(keys[j]))
		}
		counts[i] = h.Choose(h.Name("count", i), 1, 2)
		var us types.Unlocks
		for c := 0; c < counts[i]; c++ {
			us.Unlocks = append(us.Unlocks, &types.Unlock{Id: id, Amount: math.NewIntFromUint64(id)})
			id++
		}
		vhMust(k.UnlockQueue.Set(ctx, keys[i], us))
	}
	err := k.DequeueMatureUnlocks(ctx)
	h.Assert(err == nil, "sweep-never-fails")
	if err != nil {
		return
	}
	post, perr := k.EthTxQueue.Get(ctx)
	vhMust(perr)
	moved := post.Unlocks[len(pre.Unlocks):]
	for i := range pre.Unlocks {
		h.Assert(post.Unlocks[i].Id == pre.Unlocks[i].Id, "earlier-hand-over-entries-kept-in-front")
	}
	// reference: mature keys ascending, entries in insertion order
	wantN := 0
	base := uint64(1)
	firstID := make([]uint64, nKeys)
	for i := 0; i < nKeys; i++ {
		firstID[i] = base
		base += uint64(counts[i])
		mature := !keys[i].After(now)
		_, gerr := k.UnlockQueue.Get(ctx, keys[i])
		h.Assert((gerr != nil) == mature, "mature-entries-deleted-immature-kept")
		if mature {
			wantN += counts[i]
		}
	}
	h.Assert(len(moved) == wantN, "exactly-the-mature-entries-move")
	pos := 0
	for round := 0; round < nKeys && pos < len(moved); round++ {
		// next key in ascending order among mature keys not yet emitted = the one holding moved[pos]
		for i := 0; i < nKeys; i++ {
			if pos < len(moved) && moved[pos].Id == firstID[i] {
				h.Assert(!keys[i].After(now), "only-mature-entries-move")
				for c := 0; c < counts[i]; c++ {
					h.Assert(pos < len(moved) && moved[pos].Id == firstID[i]+uint64(c), "insertion-order-within-a-key")
					pos++
				}
				// every mature key not yet emitted must be later
				for j := 0; j < nKeys; j++ {
					if j != i && !keys[j].After(now) && keys[j].Before(keys[i]) {
						emitted := false
						for q := 0; q < pos; q++ {
							if moved[q].Id == firstID[j] {
								emitted = true
							}
						}
						h.Assert(emitted, "ascending-maturity-order")
					}
				}
				break
			}
		}
	}
	h.Assert(pos == len(moved), "moved-entries-are-whole-queue-entries")
	h.Reach("end")
}

// VH_C15_sweep_backlog: the sweep after a long gap between two blocks. A backlog of nKeys
// maturity times (one second apart, one unlock each, the first slot 1..2) is in the unlock
// queue and block time falls anywhere before, inside or after it. Every matured unlock is handed over
// exactly once in maturity order, its slot is deleted, and every slot that is not yet mature is
// kept whole; a second sweep at the same block time moves nothing. The backlog is larger than
// every per-block cap in the code base (16) and than the powers of two a batching limit would
// plausibly use (64 in the quick tier, up to 256 in the thorough tier), so a limit added to the sweep is exercised on both sides.
func VH_C15_sweep_backlog(h *vrt.H) {
	k, ctx := vhKeeper(h)
	vhMust(k.Params.Set(ctx, vhParams()))
	nKeys := 70
	if h.Thorough() {
		nKeys = 260
	}
	vhMust(k.EthTxQueue.Set(ctx, types.EthTxQueue{}))
	const base = int64(1_700_000_000)
	// block time is a free value around the backlog; which slots are mature is for the solver
	nowSec := int64(h.U32("now"))
	h.Assume(nowSec >= base-2 && nowSec <= base+int64(nKeys)+2)
	now := time.Unix(nowSec, 0).UTC()
	ctx = ctx.WithBlockTime(now)
	first := h.Choose("firstSlotCount", 1, 2)
	id := uint64(1)
	firstID := make([]uint64, nKeys)
	counts := make([]int, nKeys)
	for i := 0; i < nKeys; i++ {
		counts[i] = 1
		if i == 0 {
			counts[i] = first
		}
		firstID[i] = id
		var us types.Unlocks
		for c := 0; c < counts[i]; c++ {
			us.Unlocks = append(us.Unlocks, &types.Unlock{Id: id, Amount: math.NewIntFromUint64(id)})
			id++
		}
		vhMust(k.UnlockQueue.Set(ctx, time.Unix(base+int64(i), 0).UTC(), us))
	}
	err := k.DequeueMatureUnlocks(ctx)
	h.Assert(err == nil, "sweep-never-fails")
	if err != nil {
		return
	}
	post, perr := k.EthTxQueue.Get(ctx)
	vhMust(perr)
	want, cut := 0, 0
	for i := 0; i < nKeys; i++ {
		if base+int64(i) <= nowSec {
			want += counts[i]
			cut = i + 1
		}
	}
	h.NoteU64("matureSlots", uint64(cut))
	h.Assert(len(post.Unlocks) == want, "backlog-every-matured-unlock-handed-over-exactly-once")
	for q := 0; q < len(post.Unlocks) && q < want; q++ {
		h.Assert(post.Unlocks[q].Id == uint64(q+1), "backlog-maturity-order")
	}
	for i := 0; i < nKeys; i++ {
		got, gerr := k.UnlockQueue.Get(ctx, time.Unix(base+int64(i), 0).UTC())
		if i < cut {
			h.Assert(gerr != nil, "backlog-handed-over-slot-is-deleted")
		} else {
			h.Assert(gerr == nil && len(got.Unlocks) == counts[i] && got.Unlocks[0].Id == firstID[i], "backlog-immature-slot-kept-whole")
		}
	}
	// a second sweep at the same block time finds nothing left to move
	vhMust(k.DequeueMatureUnlocks(ctx))
	again, aerr := k.EthTxQueue.Get(ctx)
	vhMust(aerr)
	h.Assert(len(again.Unlocks) == want, "backlog-second-sweep-moves-nothing")
	h.Reach("end")
}
