package keeper

import (
	"time"

	"cosmossdk.io/core/comet"
	abci "github.com/cometbft/cometbft/abci/types"
	cmtproto "github.com/cometbft/cometbft/proto/tendermint/types"
	"github.com/goatnetwork/goat/zzverif/vrt"
)

// VH_C19_beginblock: the whole BeginBlocker (reward distribution, unlock sweep, vote
// handling, evidence handling) never fails or panics from a state satisfying Inv_L, for vote
// records and evidence naming existing validators (CometBFT's contract) - an error or panic
// there would halt the chain.
func VH_C19_beginblock(h *vrt.H) {
	// quick: one validator, every combination of the inputs below. thorough adds a second
	// universe: two validators with the vote powers and the evidence kind fixed (the full
	// product with two validators is about 10^7 paths and did not finish in an hour)
	n, narrow := 1, false
	if h.Thorough() && h.Choose("twoValidators", 0, 1) == 1 {
		n, narrow = 2, true
	}
	pick := func(name string, lo, hi, fixed int) int {
		if narrow {
			return fixed
		}
		return h.Choose(name, lo, hi)
	}
	k, ctx := vhKeeper(h)
	w := []uint64{0, 1}[h.Choose("weight", 0, 1)]
	st := vhBuild(h, k, ctx, n, 1, []uint64{w})
	_ = st
	var votes []abci.VoteInfo
	var total int64
	for i := 0; i < n; i++ {
		p := int64(pick(h.Name("votePower", i), 1, 3, 1))
		total += p
		votes = append(votes, abci.VoteInfo{Validator: abci.Validator{Address: vhAddr(i), Power: p}, BlockIdFlag: cmtproto.BlockIDFlag(h.Choose(h.Name("flag", i), 1, 3))})
	}
	var ev vhEvidenceList
	if h.Choose("evidence", 0, 1) == 1 {
		ev = vhEvidenceList{{typ: comet.MisbehaviorType(pick("evType", 0, 3, int(comet.DuplicateVote))), addr: vhAddr(h.Choose("evTarget", 0, n-1)), height: 3, time: time.Unix(1, 0)}}
	}
	ctx = ctx.WithBlockHeight(int64(pick("height", 1, 3, 2))).WithBlockTime(time.Unix(int64(h.U32("now")), 0).UTC()).WithVoteInfos(votes).WithCometInfo(vhBlockInfo{ev: ev})
	var err error
	panicked := h.Panics(func() { err = k.BeginBlocker(ctx) })
	h.Assert(!panicked, "beginblocker-never-panics")
	h.Assert(err == nil, "beginblocker-never-fails")
	h.Reach("end")
}
