package keeper

import (
	"time"

	"cosmossdk.io/math"
	abci "github.com/cometbft/cometbft/abci/types"
	sdk "github.com/cosmos/cosmos-sdk/types"
	"github.com/goatnetwork/goat/x/locking/types"
	"github.com/goatnetwork/goat/zzverif/vrt"
)

func vhKeeper(h *vrt.H) (Keeper, sdk.Context) {
	k := NewKeeper(h.Codec(), h.AddressCodec(), h.StoreService(types.StoreKey), nil, h.Logger())
	return k, h.Ctx()
}

func vhMust(err error) {
	if err != nil {
		panic("vh: harness state construction failed: " + err.Error())
	}
}

// vhAddr: the i-th validator address of the bounded universe (distinct 20-byte addresses).
func vhAddr(i int) sdk.ConsAddress {
	a := make([]byte, 20)
	a[0], a[19] = 0xA0, byte(i+1)
	return sdk.ConsAddress(a)
}

const vhBig = "340282366920938463463374607431768211455" // 2^128-1: stated bound on amounts

func vhParams() types.Params {
	return types.Params{
		UnlockDuration:          time.Hour,
		ExitingDuration:         2 * time.Hour,
		DowntimeJailDuration:    time.Hour,
		MaxValidators:           10,
		SignedBlocksWindow:      100,
		MaxMissedPerWindow:      50,
		SlashFractionDoubleSign: math.LegacyNewDecWithPrec(5, 2),
		SlashFractionDowntime:   math.LegacyNewDecWithPrec(1, 2),
		HalvingInterval:         100,
		InitialBlockReward:      1 << 40,
	}
}

func vhVoteInfos(powers []int64) []abci.VoteInfo {
	var out []abci.VoteInfo
	for i, p := range powers {
		out = append(out, abci.VoteInfo{Validator: abci.Validator{Address: vhAddr(i), Power: p}})
	}
	return out
}
