package keeper

import (
	"cosmossdk.io/collections"
	"cosmossdk.io/math"
	abci "github.com/cometbft/cometbft/abci/types"
	tmcrypto "github.com/cometbft/cometbft/proto/tendermint/crypto"
	sdk "github.com/cosmos/cosmos-sdk/types"
	"github.com/ethereum/go-ethereum/common"
	"github.com/goatnetwork/goat/x/locking/types"
	"github.com/goatnetwork/goat/zzverif/vrt"
)

// ---- bounded universe: validators vhAddr(0..n-1), tokens vhTok(0..t-1) ----

type vhToken struct {
	Addr      common.Address
	Denom     string
	Weight    uint64
	Threshold math.Int
}

type vhVal struct {
	Status   types.ValidatorStatus
	Power    uint64
	InSet    bool
	SetPower uint64
	Held     []math.Int // per token
}

type vhState struct {
	N      int
	K      int64
	Vals   []vhVal
	Tokens []vhToken
}

func vhTokAddr(i int) common.Address {
	var a common.Address
	if i > 0 { // token 0 is the native "btc" (zero address)
		a[0], a[19] = 0x70, byte(i)
	}
	return a
}

func vhPubkey(i int) []byte {
	p := make([]byte, 33)
	p[0], p[32] = 0x02, byte(i+1)
	return p
}

func vhEthAddr(c sdk.ConsAddress) common.Address { return common.BytesToAddress(c) }

func isCandidate(s types.ValidatorStatus) bool { return s == types.Pending || s == types.Active }

// vhBuild writes an ARBITRARY module state satisfying the mid-block invariant Inv_L into
// the store: every field is a harness input, constrained only by the invariant.
func vhBuild(h *vrt.H, k Keeper, ctx sdk.Context, n, t int, weights []uint64) *vhState {
	st := &vhState{N: n}
	params := vhParams()
	st.K = int64(h.Choose("maxValidators", 1, n+1))
	params.MaxValidators = st.K
	vhMust(k.Params.Set(ctx, params))
	vhMust(k.EthTxQueue.Set(ctx, types.EthTxQueue{}))
	vhMust(k.RewardPool.Set(ctx, types.RewardPool{Goat: math.ZeroInt(), Gas: math.ZeroInt(), Remain: math.ZeroInt()}))

	thr := sdk.Coins{}
	for j := 0; j < t; j++ {
		tk := vhToken{Addr: vhTokAddr(j), Weight: weights[j], Threshold: h.Int(h.Name("threshold", j), "0", vhBig)}
		tk.Denom = types.TokenDenom(tk.Addr)
		st.Tokens = append(st.Tokens, tk)
		vhMust(k.Tokens.Set(ctx, tk.Denom, types.Token{Weight: tk.Weight, Threshold: tk.Threshold}))
		thr = thr.Add(sdk.NewCoin(tk.Denom, tk.Threshold))
		if h.Choose(h.Name("slashedBefore", j), 0, 1) == 1 { // an earlier slash of this token is on record
			vhMust(k.Slashed.Set(ctx, tk.Denom, h.Int(h.Name("slashedTotal", j), "0", vhBig)))
		}
	}
	vhMust(k.Threshold.Set(ctx, types.Threshold{List: thr}))

	nInSet := 0
	big := false
	for i := 0; i < n; i++ {
		v := vhVal{
			Status:   types.ValidatorStatus(h.U8(h.Name("status", i))),
			Power:    h.U64(h.Name("power", i)),
			InSet:    h.Bool(h.Name("inSet", i)),
			SetPower: h.U64(h.Name("setPower", i)),
		}
		cand := h.Either(v.Status == types.Pending, v.Status == types.Active)
		// Inv_L (mid-block form)
		h.Assume(h.Both(v.Status >= 1, v.Status <= 5))
		h.Assume(h.Implies(!cand, v.Power == 0))
		h.Assume(h.Implies(v.Status == types.Active, v.InSet))
		h.Assume(h.Implies(v.Status == types.Pending, !v.InSet))
		h.Assume(h.Implies(v.InSet, v.SetPower > 0))
		coins := sdk.Coins{}
		for j := 0; j < t; j++ {
			amt := h.Int(h.Name("held", i, j), "0", vhBig)
			v.Held = append(v.Held, amt)
			coins = coins.Add(sdk.NewCoin(st.Tokens[j].Denom, amt))
			if h.Both(cand, amt.IsPositive()) { // locking index = holdings of candidates
				vhMust(k.Locking.Set(ctx, collections.Join(st.Tokens[j].Denom, vhAddr(i)), amt))
			}
		}
		// Inv_L: a member's signing window is in range (the vote handler keeps it there and a
		// promotion starts a fresh one); the record of a non-member is whatever it was left at
		si := types.SigningInfo{Offset: int64(h.U64(h.Name("offset", i)) >> 1), Missed: int64(h.U64(h.Name("missed", i)) >> 1)}
		h.Assume(h.Implies(v.Status == types.Active, h.Both(si.Offset < params.SignedBlocksWindow, si.Missed < params.MaxMissedPerWindow)))
		vhMust(k.Validators.Set(ctx, vhAddr(i), types.Validator{
			Pubkey: vhPubkey(i), Power: v.Power, Locking: coins, Status: v.Status,
			Reward: math.ZeroInt(), GasReward: math.ZeroInt(),
			SigningInfo: si,
		}))
		if h.Both(cand, v.Power > 0) { // ranking = candidates with positive power
			vhMust(k.PowerRanking.Set(ctx, collections.Join(v.Power, vhAddr(i))))
		}
		if v.InSet {
			vhMust(k.ValidatorSet.Set(ctx, vhAddr(i), v.SetPower))
			nInSet++
		}
		st.Vals = append(st.Vals, v)
		big = h.Either(big, h.Either(v.Power > uint64(cmtMaxTotalVotingPower)/4, v.SetPower > uint64(cmtMaxTotalVotingPower)/4))
	}
	h.Assume(int64(nInSet) <= st.K)
	// known finding (see known_findings.jsonl): nothing bounds the voting power a validator can
	// accumulate, so powers above CometBFT's limits are reachable (universe <= 4 validators).
	h.Region("unbounded-voting-power", big)
	return st
}

// vhUpdateIndex maps a reported validator update back to the universe (by public key).
func vhUpdateIndex(u abci.ValidatorUpdate, n int) int {
	pk, ok := u.PubKey.Sum.(*tmcrypto.PublicKey_Secp256K1)
	if !ok || len(pk.Secp256K1) != 33 {
		return -1
	}
	i := int(pk.Secp256K1[32]) - 1
	if i < 0 || i >= n || pk.Secp256K1[0] != 0x02 {
		return -1
	}
	return i
}

const (
	cmtMaxTotalVotingPower = int64(^uint64(0)>>1) / 8 // CometBFT types.MaxTotalVotingPower
)

// vhCheckEndBlock runs the REAL EndBlocker on the current store and checks everything the
// consensus engine and property C13 require of the reported updates.
func vhCheckEndBlock(h *vrt.H, k Keeper, ctx sdk.Context, n int, maxValidators int64) {
	addrs := make([]sdk.ConsAddress, n)
	keys := make([][]byte, n)
	for i := range addrs {
		addrs[i], keys[i] = vhAddr(i), vhPubkey(i)
	}
	vhCheckEndBlockAt(h, k, ctx, addrs, keys, maxValidators)
}

func vhCheckEndBlockAt(h *vrt.H, k Keeper, ctx sdk.Context, addrs []sdk.ConsAddress, keys [][]byte, maxValidators int64) {
	n := len(addrs)
	vhAddr := func(i int) sdk.ConsAddress { return addrs[i] }
	vhUpdateIndex := func(u abci.ValidatorUpdate, n int) int {
		pk, ok := u.PubKey.Sum.(*tmcrypto.PublicKey_Secp256K1)
		if !ok {
			return -1
		}
		for i := range keys {
			if string(pk.Secp256K1) == string(keys[i]) {
				return i
			}
		}
		return -1
	}
	// the module's own record of the previous set
	preIn := make([]bool, n)
	prePow := make([]uint64, n)
	for i := 0; i < n; i++ {
		p, err := k.ValidatorSet.Get(ctx, vhAddr(i))
		preIn[i], prePow[i] = err == nil, p
	}
	updates, err := k.EndBlocker(ctx)
	h.Assert(err == nil, "endblocker-never-fails")
	if err != nil {
		h.Log("endblocker error", err)
		return
	}
	seen := make([]bool, n)
	upPow := make([]int64, n)
	for _, u := range updates {
		i := vhUpdateIndex(u, n)
		h.Assert(i >= 0, "update-names-a-known-validator")
		if i < 0 {
			return
		}
		h.Assert(!seen[i], "no-duplicate-update")
		seen[i] = true
		upPow[i] = u.Power
		h.Assert(u.Power >= 0, "no-negative-power")
		if u.Power == 0 {
			h.Assert(preIn[i], "no-removal-of-a-non-member") // includes the zero-power addition
		}
	}
	// accumulate and compare with the module's record after the block
	size := 0
	total := math.ZeroInt()
	postIn := make([]bool, n)
	postPow := make([]uint64, n)
	cand := make([]bool, n)
	candPow := make([]uint64, n)
	for i := 0; i < n; i++ {
		p, gerr := k.ValidatorSet.Get(ctx, vhAddr(i))
		postIn[i], postPow[i] = gerr == nil, p
		v, verr := k.Validators.Get(ctx, vhAddr(i))
		vhMust(verr)
		cand[i], candPow[i] = isCandidate(v.Status), v.Power
		if seen[i] {
			h.Assert(postIn[i] == (upPow[i] > 0), "update-matches-record-membership")
			if upPow[i] > 0 {
				h.Assert(postPow[i] == uint64(upPow[i]), "update-matches-record-power")
			}
		} else {
			h.Assert(postIn[i] == preIn[i], "unreported-membership-unchanged")
			if preIn[i] {
				h.Assert(postPow[i] == prePow[i], "unreported-power-unchanged")
			}
		}
		if postIn[i] {
			size++
			h.Assert(v.Status == types.Active, "member-is-active")
			h.Assert(postPow[i] == v.Power && v.Power > 0, "member-has-current-positive-power")
			total = total.Add(math.NewIntFromUint64(postPow[i]))
		} else {
			h.Assert(v.Status != types.Active, "active-implies-member")
		}
	}
	h.Assert(int64(size) <= maxValidators, "at-most-max-validators")
	// top-K: no eligible non-member outranks a member (power, then address)
	for i := 0; i < n; i++ {
		for j := 0; j < n; j++ {
			if i == j || !postIn[i] || postIn[j] || !cand[j] || candPow[j] == 0 {
				continue
			}
			h.Assert(candPow[j] < postPow[i] || (candPow[j] == postPow[i] && j < i), "no-outsider-outranks-a-member")
		}
	}
	// a full set must not leave eligible candidates out while it has room
	if int64(size) < maxValidators {
		for j := 0; j < n; j++ {
			h.Assert(postIn[j] || !cand[j] || candPow[j] == 0, "room-left-means-every-candidate-is-in")
		}
	}
	h.Assert(total.LTE(math.NewInt(cmtMaxTotalVotingPower)), "total-power-within-cometbft-limit")
}
