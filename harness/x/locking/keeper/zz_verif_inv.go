package keeper

import (
	"time"

	"cosmossdk.io/collections"
	"cosmossdk.io/core/comet"
	"cosmossdk.io/math"
	sdk "github.com/cosmos/cosmos-sdk/types"
	"github.com/goatnetwork/goat/x/locking/types"
	"github.com/goatnetwork/goat/zzverif/vrt"
)

// vhSnap is the observable per-validator / per-token state of the bounded universe.
type vhSnap struct {
	Val      []types.Validator
	Slashed  []math.Int // per token
	Released []math.Int // per token: queued unlocks (unlock queue + hand-over queue)
	NQueued  int
}

func vhSnapshot(h *vrt.H, k Keeper, ctx sdk.Context, st *vhState) *vhSnap {
	s := &vhSnap{}
	for i := 0; i < st.N; i++ {
		v, err := k.Validators.Get(ctx, vhAddr(i))
		vhMust(err)
		s.Val = append(s.Val, v)
	}
	for _, tk := range st.Tokens {
		sl, err := k.Slashed.Get(ctx, tk.Denom)
		if err != nil {
			sl = math.ZeroInt()
		}
		s.Slashed = append(s.Slashed, sl)
		s.Released = append(s.Released, math.ZeroInt())
	}
	add := func(u *types.Unlock) {
		s.NQueued++
		for j, tk := range st.Tokens {
			if string(u.Token) == string(tk.Addr.Bytes()) {
				s.Released[j] = s.Released[j].Add(u.Amount)
			}
		}
	}
	it, err := k.UnlockQueue.Iterate(ctx, nil)
	vhMust(err)
	for ; it.Valid(); it.Next() {
		kv, kerr := it.KeyValue()
		vhMust(kerr)
		for _, u := range kv.Value.Unlocks {
			add(u)
		}
	}
	q, qerr := k.EthTxQueue.Get(ctx)
	vhMust(qerr)
	for _, u := range q.Unlocks {
		add(u)
	}
	return s
}

// vhCheckInvL asserts the mid-block module invariant on the current store.
func vhCheckInvL(h *vrt.H, k Keeper, ctx sdk.Context, st *vhState) {
	addrs := make([]sdk.ConsAddress, st.N)
	for i := range addrs {
		addrs[i] = vhAddr(i)
	}
	vhCheckInvLAt(h, k, ctx, st, addrs)
}

func vhCheckInvLAt(h *vrt.H, k Keeper, ctx sdk.Context, st *vhState, addrs []sdk.ConsAddress) {
	vhAddr := func(i int) sdk.ConsAddress { return addrs[i] }
	ranked := make([]int, st.N)
	params, perr := k.Params.Get(ctx)
	vhMust(perr)
	it, err := k.PowerRanking.Iterate(ctx, nil)
	vhMust(err)
	for ; it.Valid(); it.Next() {
		key, kerr := it.Key()
		vhMust(kerr)
		found := false
		for i := 0; i < st.N; i++ {
			if string(key.K2()) == string(vhAddr(i)) {
				found = true
				ranked[i]++
				v, verr := k.Validators.Get(ctx, vhAddr(i))
				vhMust(verr)
				h.Assert(key.K1() == v.Power, "invL-ranking-entry-has-current-power")
			}
		}
		h.Assert(found, "invL-ranking-entry-names-a-validator")
	}
	for i := 0; i < st.N; i++ {
		v, verr := k.Validators.Get(ctx, vhAddr(i))
		vhMust(verr)
		cand := isCandidate(v.Status)
		h.Assert(ranked[i] <= 1, "invL-one-ranking-entry-per-validator")
		h.Assert((ranked[i] == 1) == (cand && v.Power > 0), "invL-ranking-iff-candidate-with-positive-power")
		h.Assert(cand || v.Power == 0, "invL-non-candidate-has-no-power")
		h.Assert(h.Implies(v.Status == types.Active, h.Both(h.Both(v.SigningInfo.Offset >= 0, v.SigningInfo.Offset < params.SignedBlocksWindow), h.Both(v.SigningInfo.Missed >= 0, v.SigningInfo.Missed < params.MaxMissedPerWindow))),
			"invL-member-signing-window-in-range")
		for _, tk := range st.Tokens {
			amt, lerr := k.Locking.Get(ctx, collections.Join(tk.Denom, vhAddr(i)))
			held := v.Locking.AmountOf(tk.Denom)
			h.Assert(!held.IsNegative(), "held-never-negative")
			if lerr == nil {
				h.Assert(cand && amt.Equal(held) && held.IsPositive(), "invL-locking-index-matches-holdings")
			} else {
				h.Assert(!cand || held.IsZero(), "invL-candidate-holdings-are-indexed")
			}
		}
	}
}

// ---- comet evidence stubs (plain Go; executed symbolically like the code under test) ----

type vhEvidence struct {
	typ    comet.MisbehaviorType
	addr   []byte
	height int64
	time   time.Time
}

func (e vhEvidence) Type() comet.MisbehaviorType { return e.typ }
func (e vhEvidence) Validator() comet.Validator  { return vhCometVal{e.addr} }
func (e vhEvidence) Height() int64               { return e.height }
func (e vhEvidence) Time() time.Time             { return e.time }
func (e vhEvidence) TotalVotingPower() int64     { return 0 }

type vhCometVal struct{ addr []byte }

func (v vhCometVal) Address() []byte { return v.addr }
func (v vhCometVal) Power() int64    { return 0 }

type vhEvidenceList []vhEvidence

func (l vhEvidenceList) Len() int                 { return len(l) }
func (l vhEvidenceList) Get(i int) comet.Evidence { return l[i] }

type vhBlockInfo struct{ ev vhEvidenceList }

func (b vhBlockInfo) GetEvidence() comet.EvidenceList { return b.ev }
func (b vhBlockInfo) GetValidatorsHash() []byte       { return nil }
func (b vhBlockInfo) GetProposerAddress() []byte      { return nil }
func (b vhBlockInfo) GetLastCommit() comet.CommitInfo { return nil }
