package keeper

import (
	"cosmossdk.io/math"
	"github.com/ethereum/go-ethereum/core/types/goattypes"
	"github.com/goatnetwork/goat/zzverif/vrt"
)

// VH_C13_endblock: from ANY mid-block state satisfying Inv_L the EndBlocker reports
// exactly the changes that turn the recorded set into the top-K, all acceptable to CometBFT.
func VH_C13_endblock(h *vrt.H) {
	n := 2
	if h.Thorough() {
		n = 3
	}
	k, ctx := vhKeeper(h)
	st := vhBuild(h, k, ctx, n, 1, []uint64{1})
	vhCheckEndBlock(h, k, ctx, n, st.K)
	h.Reach("end")
}

// VH_C13_lock_endblock: one lock request (any validator, any amount, token weight 0 / 1 /
// 10^18) on any Inv_L state, then the EndBlocker: the reported updates stay acceptable.
func VH_C13_lock_endblock(h *vrt.H) {
	n := 1
	if h.Thorough() {
		n = 2
	}
	k, ctx := vhKeeper(h)
	w := []uint64{0, 1, 1_000_000_000_000_000_000}[h.Choose("weight", 0, 2)]
	st := vhBuild(h, k, ctx, n, 1, []uint64{w})
	req := &goattypes.LockRequest{Validator: vhEthAddr(vhAddr(h.Choose("target", 0, n-1))), Token: st.Tokens[0].Addr, Amount: h.Big("amount", "0", vhBig)}
	// the lock itself can push the power over the limit (same known finding: nothing caps it)
	gained := math.NewIntFromUint64(w).Mul(math.NewIntFromBigInt(req.Amount)).Quo(math.NewIntFromUint64(1_000_000_000_000_000_000))
	h.Region("unbounded-voting-power", gained.GT(math.NewInt(cmtMaxTotalVotingPower/4)))
	err := k.Lock(ctx, []*goattypes.LockRequest{req})
	h.NoteBool("lockOk", err == nil)
	if err != nil {
		h.Reach("lock-refused")
		return
	}
	vhCheckEndBlock(h, k, ctx, n, st.K)
	h.Reach("end")
}
