package keeper

import (
	"cosmossdk.io/core/comet"
	"cosmossdk.io/math"
	abci "github.com/cometbft/cometbft/abci/types"
	cmtproto "github.com/cometbft/cometbft/proto/tendermint/types"
	"github.com/ethereum/go-ethereum/core/types/goattypes"
	"github.com/goatnetwork/goat/zzverif/vrt"
)

// VH_C13_endblock: from ANY mid-block state satisfying Inv_L the EndBlocker reports
// exactly the changes that turn the recorded set into the top-K, all acceptable to CometBFT.
func VH_C13_endblock(h *vrt.H) {
	n := 2
	if h.Thorough() {
		n = 3
	}
	k, ctx := vhKeeper(h)
	st := vhBuild(h, k, ctx, n, 1, []uint64{1})
	vhCheckEndBlock(h, k, ctx, n, st.K)
	h.Reach("end")
}

// VH_C13_lock_endblock: one lock request (any validator, any amount, token weight 0 / 1 /
// 10^18) on any Inv_L state, then the EndBlocker: the reported updates stay acceptable.
func VH_C13_lock_endblock(h *vrt.H) {
	n := 1
	if h.Thorough() {
		n = 2
	}
	k, ctx := vhKeeper(h)
	w := []uint64{0, 1, 1_000_000_000_000_000_000}[h.Choose("weight", 0, 2)]
	st := vhBuild(h, k, ctx, n, 1, []uint64{w})
	req := &goattypes.LockRequest{Validator: vhEthAddr(vhAddr(h.Choose("target", 0, n-1))), Token: st.Tokens[0].Addr, Amount: h.Big("amount", "0", vhBig)}
	// the lock itself can push the power over the limit (same known finding: nothing caps it)
	gained := math.NewIntFromUint64(w).Mul(math.NewIntFromBigInt(req.Amount)).Quo(math.NewIntFromUint64(1_000_000_000_000_000_000))
	h.Region("unbounded-voting-power", gained.GT(math.NewInt(cmtMaxTotalVotingPower/4)))
	err := k.Lock(ctx, []*goattypes.LockRequest{req})
	h.NoteBool("lockOk", err == nil)
	if err != nil {
		h.Reach("lock-refused")
		return
	}
	vhCheckEndBlock(h, k, ctx, n, st.K)
	h.Reach("end")
}

// VH_C13_op_endblock: any single operation (unlock, weight change, a missed vote that may
// jail, double-sign evidence) on any Inv_L state re-establishes Inv_L, and the EndBlocker
// that follows never fails and reports acceptable updates.
func VH_C13_op_endblock(h *vrt.H) {
	op := h.Choose("op", 0, 3)
	n := 1
	// thorough: two validators for the missed vote and the evidence (unlock and the weight
	// change re-rank every holder; with two validators they did not finish in 40 minutes)
	if h.Thorough() && op >= 2 {
		n = 2
	}
	k, ctx := vhKeeper(h)
	w := []uint64{0, 1, 3_000_000_000_000_000_000}[h.Choose("weight", 0, 2)]
	st := vhBuild(h, k, ctx, n, 1, []uint64{w})
	ctx = ctx.WithBlockHeight(10)
	target := h.Choose("target", 0, n-1)
	amt := h.Big("amount", "0", vhBig)
	gained := math.NewIntFromUint64(3_000_000_000_000_000_000).Mul(math.NewIntFromBigInt(amt)).Quo(math.NewIntFromUint64(1_000_000_000_000_000_000))
	var err error
	switch op {
	case 0:
		err = k.Unlock(ctx, []*goattypes.UnlockRequest{{Id: 1, Validator: vhEthAddr(vhAddr(target)), Token: st.Tokens[0].Addr, Amount: amt}})
	case 1:
		nw := []uint64{0, 1, 2, 3_000_000_000_000_000_000}[h.Choose("newWeight", 0, 3)]
		// a weight raise can push the power over CometBFT's limit (known finding: nothing caps it)
		for i := 0; i < n; i++ {
			up := math.NewIntFromUint64(3_000_000_000_000_000_000).Mul(st.Vals[i].Held[0]).Quo(math.NewIntFromUint64(1_000_000_000_000_000_000))
			h.Region("unbounded-voting-power", up.GT(math.NewInt(cmtMaxTotalVotingPower/4)))
		}
		if h.Panics(func() {
			err = k.UpdateTokens(ctx, []*goattypes.UpdateTokenWeightRequest{{Token: st.Tokens[0].Addr, Weight: nw}}, nil)
		}) {
			h.Reach("panicked-recovered-by-runtx")
			return
		}
	case 2:
		err = k.HandleVoteInfos(ctx.WithVoteInfos([]abci.VoteInfo{{Validator: abci.Validator{Address: vhAddr(target), Power: 1}, BlockIdFlag: cmtproto.BlockIDFlagAbsent}}))
	case 3:
		err = k.HandleEvidences(ctx.WithCometInfo(vhBlockInfo{ev: vhEvidenceList{{typ: comet.DuplicateVote, addr: vhAddr(target), height: 9}}}))
	}
	_ = gained
	if err != nil {
		h.Reach("refused")
		return
	}
	vhCheckInvL(h, k, ctx, st)
	vhCheckEndBlock(h, k, ctx, n, st.K)
	h.Reach("end")
}
