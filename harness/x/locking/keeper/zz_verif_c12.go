package keeper

import (
	"math/big"

	"cosmossdk.io/math"
	"github.com/ethereum/go-ethereum/core/types/goattypes"
	"github.com/goatnetwork/goat/x/locking/types"
	"github.com/goatnetwork/goat/zzverif/vrt"
)

// VH_C12_distribute: DistributeReward conserves both pools, never hands out more than
// the pool holds (pool' >= 0), and every share is the proportional part up to rounding.
// The discrete structure (number of validators, their powers) is case-split; each case
// is decided for ALL pool sizes and accrued balances.
func VH_C12_distribute(h *vrt.H) {
	maxK, maxP := 3, 4
	if h.Thorough() {
		maxK, maxP = 6, 3
	}
	kN := h.Choose("nValidators", 1, maxK)
	powers := make([]int64, kN)
	var total int64
	for i := range powers {
		powers[i] = int64(h.Choose(h.Name("power", i), 1, maxP))
		total += powers[i]
	}
	k, ctx := vhKeeper(h)
	ctx = ctx.WithBlockHeight(int64(h.Choose("heightAbove2", 0, 1)) + 2).WithVoteInfos(vhVoteInfos(powers))

	goat, gas, remain := h.Int("poolGoat", "0", vhBig), h.Int("poolGas", "0", vhBig), h.Int("poolRemain", "0", vhBig)
	vhMust(k.RewardPool.Set(ctx, types.RewardPool{Goat: goat, Gas: gas, Remain: remain}))
	preR := make([]math.Int, kN)
	preG := make([]math.Int, kN)
	for i := 0; i < kN; i++ {
		preR[i], preG[i] = h.Int(h.Name("reward", i), "0", vhBig), h.Int(h.Name("gasReward", i), "0", vhBig)
		vhMust(k.Validators.Set(ctx, vhAddr(i), types.Validator{Power: uint64(powers[i]), Reward: preR[i], GasReward: preG[i], Status: types.Active}))
	}

	err := k.DistributeReward(ctx)
	h.Assert(err == nil, "distribute-never-fails")
	if err != nil {
		return
	}
	pool, perr := k.RewardPool.Get(ctx)
	vhMust(perr)
	h.NoteInt("poolGoatAfter", pool.Goat)
	h.NoteInt("poolGasAfter", pool.Gas)
	sumR, sumG := math.ZeroInt(), math.ZeroInt()
	tot := math.NewInt(total)
	one := math.NewInt(1)
	e18 := math.NewIntFromUint64(1_000_000_000_000_000_000)
	for i := 0; i < kN; i++ {
		v, verr := k.Validators.Get(ctx, vhAddr(i))
		vhMust(verr)
		shareR, shareG := v.Reward.Sub(preR[i]), v.GasReward.Sub(preG[i])
		h.Assert(!shareR.IsNegative() && !shareG.IsNegative(), "shares-non-negative")
		sumR, sumG = sumR.Add(shareR), sumG.Add(shareG)
		// |share*total - pool*power| <= (pool/1e18 + 2) * total   (18-digit rounding of the proportion)
		p := math.NewInt(powers[i])
		slackR := goat.Quo(e18).Add(one).Add(one).Mul(tot)
		slackG := gas.Quo(e18).Add(one).Add(one).Mul(tot)
		h.Assert(shareR.Mul(tot).Sub(goat.Mul(p)).Abs().LTE(slackR), "goat-share-proportional")
		h.Assert(shareG.Mul(tot).Sub(gas.Mul(p)).Abs().LTE(slackG), "gas-share-proportional")
	}
	h.Assert(sumR.Add(pool.Goat).Equal(goat), "goat-conserved")
	h.Assert(sumG.Add(pool.Gas).Equal(gas), "gas-conserved")
	h.Assert(!pool.Goat.IsNegative(), "goat-pool-never-negative")
	h.Assert(!pool.Gas.IsNegative(), "gas-pool-never-negative")
	h.Assert(pool.Remain.Equal(remain), "ungranted-remainder-untouched")
	h.Reach("end")
}

// VH_C12_update: UpdateRewardPool follows the emission schedule: the grant pool grows by the
// grants, gas by the positive revenue, and min(remaining, initial >> halvings) moves to the
// block reward.
func VH_C12_update(h *vrt.H) {
	k, ctx := vhKeeper(h)
	params := vhParams()
	params.InitialBlockReward = int64(h.U64("initialReward") >> 1)
	h.Assume(params.InitialBlockReward >= 1)
	vhMust(k.Params.Set(ctx, params))
	halvings := h.Choose("halvings", 0, 66)
	height := int64(halvings)*params.HalvingInterval + int64(h.Choose("offset", 0, 1))*(params.HalvingInterval-1)
	ctx = ctx.WithBlockHeight(height)

	goat, gas, remain := h.Int("poolGoat", "0", vhBig), h.Int("poolGas", "0", vhBig), h.Int("poolRemain", "0", vhBig)
	vhMust(k.RewardPool.Set(ctx, types.RewardPool{Goat: goat, Gas: gas, Remain: remain}))
	revenue := h.Big("revenue", "0", vhBig)
	nGrants := h.Choose("nGrants", 0, 2)
	grantSum := math.ZeroInt()
	var grants []*goattypes.GrantRequest
	for i := 0; i < nGrants; i++ {
		g := h.Big(h.Name("grant", i), "0", vhBig)
		grantSum = grantSum.Add(math.NewIntFromBigInt(g))
		grants = append(grants, &goattypes.GrantRequest{Amount: g})
	}
	rev := math.NewIntFromBigInt(revenue)
	err := k.UpdateRewardPool(ctx, []*goattypes.GasRequest{{Amount: revenue}}, grants)
	h.Assert(err == nil, "update-never-fails")
	if err != nil {
		return
	}
	pool, perr := k.RewardPool.Get(ctx)
	vhMust(perr)
	h.NoteInt("goatAfter", pool.Goat)
	// reference schedule
	want := big.NewInt(params.InitialBlockReward)
	if halvings < 63 {
		want.Rsh(want, uint(halvings))
	} else {
		want.SetInt64(0)
	}
	sched := math.NewIntFromBigInt(want)
	avail := remain.Add(grantSum)
	moved := pool.Goat.Sub(goat)
	h.Assert(moved.Equal(math.MinInt(avail, sched)), "block-reward-is-min-of-remaining-and-schedule")
	h.Assert(pool.Remain.Add(moved).Equal(avail), "grant-pool-conserved")
	h.Assert(pool.Gas.Equal(gas.Add(rev)), "gas-revenue-added")
	h.Assert(!pool.Remain.IsNegative() && !pool.Goat.IsNegative(), "pools-never-negative")
	h.Reach("end")
}

// VH_C12_claim: a batch of claims queues, per validator, exactly what was accrued (once)
// and zeroes the balances; a claim naming an unknown validator fails the batch.
func VH_C12_claim(h *vrt.H) {
	k, ctx := vhKeeper(h)
	vhMust(k.EthTxQueue.Set(ctx, types.EthTxQueue{}))
	const nVal = 2
	r := make([]math.Int, nVal)
	g := make([]math.Int, nVal)
	for i := 0; i < nVal; i++ {
		r[i], g[i] = h.Int(h.Name("reward", i), "0", vhBig), h.Int(h.Name("gasReward", i), "0", vhBig)
		vhMust(k.Validators.Set(ctx, vhAddr(i), types.Validator{Reward: r[i], GasReward: g[i], Status: types.Active}))
	}
	nReq := h.Choose("nClaims", 1, 3)
	var reqs []*goattypes.ClaimRequest
	who := make([]int, nReq)
	for j := 0; j < nReq; j++ {
		who[j] = h.Choose(h.Name("who", j), 0, nVal) // nVal = unknown validator
		req := &goattypes.ClaimRequest{Id: h.U64(h.Name("id", j))}
		copy(req.Validator[:], vhAddr(who[j]))
		copy(req.Recipient[:], h.Bytes(h.Name("recipient", j), 20))
		reqs = append(reqs, req)
	}
	err := k.Claim(ctx, reqs)
	q, qerr := k.EthTxQueue.Get(ctx)
	vhMust(qerr)
	if err != nil {
		h.Assert(len(q.Rewards) == 0, "failed-claim-queues-nothing")
		h.Reach("unknown-validator")
		return
	}
	h.Assert(len(q.Rewards) == nReq, "one-queue-entry-per-claim")
	for i := 0; i < nVal; i++ {
		paidR, paidG := math.ZeroInt(), math.ZeroInt()
		claimed := false
		for j := 0; j < nReq && j < len(q.Rewards); j++ {
			h.Assert(who[j] < nVal, "claims-for-unknown-validators-fail")
			if who[j] == i {
				claimed = true
				paidR, paidG = paidR.Add(q.Rewards[j].Goat), paidG.Add(q.Rewards[j].Gas)
				h.Assert(q.Rewards[j].Id == reqs[j].Id && string(q.Rewards[j].Recipient) == string(reqs[j].Recipient[:]), "queued-claim-carries-the-request")
			}
		}
		v, verr := k.Validators.Get(ctx, vhAddr(i))
		vhMust(verr)
		if claimed {
			h.Assert(paidR.Equal(r[i]) && paidG.Equal(g[i]), "accrued-reward-is-paid-exactly-once")
			h.Assert(v.Reward.IsZero() && v.GasReward.IsZero(), "claim-zeroes-accrued")
		} else {
			h.Assert(v.Reward.Equal(r[i]) && v.GasReward.Equal(g[i]), "unclaimed-balances-untouched")
		}
	}
	h.Reach("claimed")
}
