package keeper

import (
	"cosmossdk.io/collections"
	"cosmossdk.io/math"
	sdk "github.com/cosmos/cosmos-sdk/types"
	"github.com/ethereum/go-ethereum/core/types/goattypes"
	"github.com/goatnetwork/goat/x/locking/types"
	"github.com/goatnetwork/goat/zzverif/vrt"
)

func vhKeeperNamed(h *vrt.H, name string) Keeper {
	return NewKeeper(h.Codec(), h.AddressCodec(), h.StoreService(name), nil, h.Logger())
}

// vhSmallState: validators 0..n-1 (all Pending, no holdings), one token of the given weight.
func vhSmallState(k Keeper, ctx sdk.Context, n int, weight uint64) {
	vhMust(k.Params.Set(ctx, vhParams()))
	vhMust(k.Tokens.Set(ctx, "btc", types.Token{Weight: weight, Threshold: math.ZeroInt()}))
	vhMust(k.Threshold.Set(ctx, types.Threshold{}))
	for i := 0; i < n; i++ {
		vhMust(k.Validators.Set(ctx, vhAddr(i), types.Validator{Pubkey: vhPubkey(i), Status: types.Pending, Reward: math.ZeroInt(), GasReward: math.ZeroInt()}))
	}
}

// VH_C07_lock: the same lock request executed on two identical stores gives the same
// outcome, the same state and the SAME GAS whatever order Go picks for its map iteration
// (gas of a failed transaction is part of CometBFT's LastResultsHash).
func VH_C07_lock(h *vrt.H) {
	ka, kb := vhKeeperNamed(h, "lockingA"), vhKeeperNamed(h, "lockingB")
	ctx := h.Ctx()
	maxKnown, maxReq := 2, 3
	if h.Thorough() {
		maxKnown, maxReq = 3, 4
	}
	known := h.Choose("knownValidators", 1, maxKnown) // validators 0..known-1 exist; requests may name unknown ones
	vhSmallState(ka, ctx, known, 0)
	vhSmallState(kb, ctx, known, 0)
	nReq := h.Choose("nRequests", 1, maxReq)
	var reqs []*goattypes.LockRequest
	for i := 0; i < nReq; i++ {
		reqs = append(reqs, &goattypes.LockRequest{
			Validator: vhEthAddr(vhAddr(h.Choose(h.Name("target", i), 0, maxKnown))),
			Amount:    h.Big(h.Name("amount", i), "0", vhBig),
		})
	}
	g0 := h.GasUsed(ctx)
	errA := ka.Lock(ctx, reqs)
	g1 := h.GasUsed(ctx)
	errB := kb.Lock(ctx, reqs)
	g2 := h.GasUsed(ctx)
	h.Assert((errA == nil) == (errB == nil), "same-outcome-under-any-map-order")
	h.Assert(g1-g0 == g2-g1, "same-gas-under-any-map-order")
	if errA == nil && errB == nil {
		for i := 0; i < known; i++ {
			va, _ := ka.Validators.Get(ctx, vhAddr(i))
			vb, _ := kb.Validators.Get(ctx, vhAddr(i))
			h.Assert(va.Power == vb.Power && va.Locking.AmountOf("btc").Equal(vb.Locking.AmountOf("btc")), "same-state-under-any-map-order")
			ha, _ := ka.PowerRanking.Has(ctx, collections.Join(va.Power, vhAddr(i)))
			hb, _ := kb.PowerRanking.Has(ctx, collections.Join(vb.Power, vhAddr(i)))
			h.Assert(ha == hb, "same-ranking-under-any-map-order")
		}
	}
	h.Reach("end")
}

// VH_C07_endblock: the EndBlocker's removal loop ranges over a Go map; the resulting state
// and the SET of reported updates must not depend on the order.
func VH_C07_endblock(h *vrt.H) {
	ka, kb := vhKeeperNamed(h, "lockingA"), vhKeeperNamed(h, "lockingB")
	ctx := h.Ctx()
	n := 3
	for _, k := range []Keeper{ka, kb} {
		vhSmallState(k, ctx, n, 1)
	}
	// members 0..n-1 that all lost their power (removed together)
	for i := 0; i < n; i++ {
		st := types.ValidatorStatus(h.Choose(h.Name("status", i), 2, 5))
		sp := h.U64(h.Name("setPower", i))
		for _, k := range []Keeper{ka, kb} {
			vhMust(k.Validators.Set(ctx, vhAddr(i), types.Validator{Pubkey: vhPubkey(i), Status: st, Reward: math.ZeroInt(), GasReward: math.ZeroInt()}))
			vhMust(k.ValidatorSet.Set(ctx, vhAddr(i), sp))
		}
	}
	g0 := h.GasUsed(ctx)
	ua, errA := ka.EndBlocker(ctx)
	g1 := h.GasUsed(ctx)
	ub, errB := kb.EndBlocker(ctx)
	g2 := h.GasUsed(ctx)
	h.Assert(errA == nil && errB == nil, "endblocker-ok")
	h.Assert(g1-g0 == g2-g1, "same-gas-under-any-map-order")
	h.Assert(len(ua) == len(ub), "same-number-of-updates")
	for _, x := range ua {
		found := false
		for _, y := range ub {
			if vhUpdateIndex(x, n) == vhUpdateIndex(y, n) && x.Power == y.Power {
				found = true
			}
		}
		h.Assert(found, "same-update-set-under-any-map-order")
	}
	for i := 0; i < n; i++ {
		va, _ := ka.Validators.Get(ctx, vhAddr(i))
		vb, _ := kb.Validators.Get(ctx, vhAddr(i))
		h.Assert(va.Status == vb.Status, "same-state-under-any-map-order")
	}
	h.Reach("end")
}

// VH_C07_failed_tx_no_trace: a transaction that fails part-way is rolled back by baseapp;
// a replica that keeps running (same keeper object) and a replica that restarts (fresh keeper
// over the same store) must then compute the same thing. Any process-local state that
// survives the rollback (a cache outside the store) shows up as a difference.
func VH_C07_failed_tx_no_trace(h *vrt.H) {
	ka := vhKeeperNamed(h, "locking")
	ctx := h.Ctx()
	oldW := []uint64{0, 1, 2}[h.Choose("oldWeight", 0, 2)]
	vhSmallState(ka, ctx, 1, oldW)
	vhMust(ka.EthTxQueue.Set(ctx, types.EthTxQueue{}))
	vhMust(ka.RewardPool.Set(ctx, types.RewardPool{Goat: math.ZeroInt(), Gas: math.ZeroInt(), Remain: math.ZeroInt()}))
	// block N: requests that change a token weight/threshold and then fail (unknown validator)
	newW := []uint64{0, 1, 5}[h.Choose("newWeight", 0, 2)]
	bad := goattypes.LockingRequests{
		Gas:           []*goattypes.GasRequest{{Amount: h.Big("gas", "0", vhBig)}},
		UpdateWeights: []*goattypes.UpdateTokenWeightRequest{{Weight: newW}},
		Locks:         []*goattypes.LockRequest{{Validator: vhEthAddr(vhAddr(9)), Amount: h.Big("badAmount", "0", vhBig)}},
	}
	err := h.TryTx(ctx, func(c sdk.Context) error { return ka.ProcessLockingRequest(c, bad) })
	h.Assert(err != nil, "request-naming-an-unknown-validator-fails")
	// block N+1 on the running replica (ka) and on a restarted one (kb)
	kb := vhKeeperNamed(h, "locking")
	amt := h.Big("amount", "0", vhBig)
	good := []*goattypes.LockRequest{{Validator: vhEthAddr(vhAddr(0)), Amount: amt}}
	var pa, pb uint64
	var ea, eb error
	_ = h.DryRun(ctx, func(c sdk.Context) error {
		ea = ka.Lock(c, good)
		v, _ := ka.Validators.Get(c, vhAddr(0))
		pa = v.Power
		return nil
	})
	_ = h.DryRun(ctx, func(c sdk.Context) error {
		eb = kb.Lock(c, good)
		v, _ := kb.Validators.Get(c, vhAddr(0))
		pb = v.Power
		return nil
	})
	h.Assert((ea == nil) == (eb == nil), "running-and-restarted-replica-agree-on-the-outcome")
	h.Assert(pa == pb, "running-and-restarted-replica-agree-on-the-power")
	h.Reach("end")
}
