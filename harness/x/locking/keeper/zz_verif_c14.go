package keeper

import (
	"time"

	"cosmossdk.io/collections"
	"cosmossdk.io/core/comet"
	"cosmossdk.io/math"
	abci "github.com/cometbft/cometbft/abci/types"
	cmtproto "github.com/cometbft/cometbft/proto/tendermint/types"
	"github.com/ethereum/go-ethereum/core/types/goattypes"
	"github.com/goatnetwork/goat/x/locking/types"
	"github.com/goatnetwork/goat/zzverif/vrt"
)

// VH_C14_voteinfo: one vote record for an arbitrary validator state. Reference model of
// the signing window written from the property statement.
func VH_C14_voteinfo(h *vrt.H) {
	n, ws := vhUniverse(h)
	k, ctx := vhKeeper(h)
	st := vhBuild(h, k, ctx, n, 1, ws)
	now := time.Unix(int64(h.U32("now")), 0).UTC()
	ctx = ctx.WithBlockTime(now)
	target := h.Choose("target", 0, n-1)
	pre := vhSnapshot(h, k, ctx, st)
	p := vhParams()
	h.Assume(pre.Val[target].SigningInfo.Offset >= 0 && pre.Val[target].SigningInfo.Offset < p.SignedBlocksWindow)
	h.Assume(pre.Val[target].SigningInfo.Missed >= 0 && pre.Val[target].SigningInfo.Missed < p.MaxMissedPerWindow)
	flag := cmtproto.BlockIDFlag(h.Choose("flag", 1, 3)) // absent / commit / nil
	ctx = ctx.WithVoteInfos([]abci.VoteInfo{{Validator: abci.Validator{Address: vhAddr(target), Power: 1}, BlockIdFlag: flag}})
	err := k.HandleVoteInfos(ctx)
	h.Assert(err == nil, "vote-handling-never-fails")
	if err != nil {
		return
	}
	post := vhSnapshot(h, k, ctx, st)
	a, b := pre.Val[target], post.Val[target]
	if a.Status != types.Active {
		h.Assert(b.Status == a.Status && b.Power == a.Power && b.SigningInfo == a.SigningInfo && b.Locking.AmountOf("btc").Equal(a.Locking.AmountOf("btc")),
			"non-active-validators-are-not-counted")
		h.Reach("not-active")
		return
	}
	missed := a.SigningInfo.Missed
	if flag == cmtproto.BlockIDFlagAbsent {
		missed++
	}
	down := missed >= p.MaxMissedPerWindow
	off := a.SigningInfo.Offset + 1
	if off >= p.SignedBlocksWindow {
		off, missed = 0, 0
	}
	h.Assert(b.SigningInfo.Offset == off && b.SigningInfo.Missed == missed, "signing-window-arithmetic")
	if down {
		h.Assert(b.Status == types.Downgrade && b.Power == 0, "downtime-demotes-and-zeroes-power")
		h.Assert(b.JailedUntil.Equal(now.Add(p.DowntimeJailDuration)), "jailed-for-the-jail-duration")
		inRank, _ := k.PowerRanking.Has(ctx, collections.Join(a.Power, vhAddr(target)))
		h.Assert(!inRank, "jailed-validator-leaves-ranking")
		h.Reach("jailed")
	} else {
		h.Assert(b.Status == types.Active && b.Power == a.Power && b.Locking.AmountOf("btc").Equal(a.Locking.AmountOf("btc")), "present-or-tolerated-absence-changes-nothing-else")
		h.Reach("still-active")
	}
	vhCheckInvL(h, k, ctx, st)
}

// VH_C14_evidence: double-sign / light-client-attack evidence tombstones unless it is older
// than BOTH age limits; unknown evidence types and already tombstoned validators are ignored.
func VH_C14_evidence(h *vrt.H) {
	n, ws := vhUniverse(h)
	k, ctx := vhKeeper(h)
	st := vhBuild(h, k, ctx, n, 1, ws)
	target := h.Choose("target", 0, n-1)
	pre := vhSnapshot(h, k, ctx, st)
	now := time.Unix(int64(h.U32("now")), 0).UTC()
	evTime := time.Unix(int64(h.U32("evidenceTime")), 0).UTC()
	height, evHeight := int64(h.U32("height")), int64(h.U32("evidenceHeight"))
	maxAgeBlocks := int64(h.U32("maxAgeBlocks"))
	maxAgeDur := time.Duration(h.U32("maxAgeSeconds")) * time.Second
	typ := comet.MisbehaviorType(h.Choose("evType", 0, 3))
	ctx = ctx.WithBlockTime(now).WithBlockHeight(height).
		WithConsensusParams(cmtproto.ConsensusParams{Evidence: &cmtproto.EvidenceParams{MaxAgeNumBlocks: maxAgeBlocks, MaxAgeDuration: maxAgeDur}}).
		WithCometInfo(vhBlockInfo{ev: vhEvidenceList{{typ: typ, addr: vhAddr(target), height: evHeight, time: evTime}}})
	err := k.HandleEvidences(ctx)
	h.Assert(err == nil, "evidence-handling-never-fails")
	if err != nil {
		return
	}
	post := vhSnapshot(h, k, ctx, st)
	a, b := pre.Val[target], post.Val[target]
	known := typ == comet.DuplicateVote || typ == comet.LightClientAttack
	expired := now.Sub(evTime) > maxAgeDur && height-evHeight > maxAgeBlocks
	if !known || expired || a.Status == types.Tombstoned {
		h.Assert(b.Status == a.Status && b.Power == a.Power && b.Locking.AmountOf("btc").Equal(a.Locking.AmountOf("btc")) && post.Slashed[0].Equal(pre.Slashed[0]),
			"ignored-evidence-changes-nothing")
		h.Reach("ignored")
	} else {
		h.Assert(b.Status == types.Tombstoned && b.Power == 0, "evidence-tombstones-and-zeroes-power")
		inRank, _ := k.PowerRanking.Has(ctx, collections.Join(a.Power, vhAddr(target)))
		h.Assert(!inRank, "tombstoned-validator-leaves-ranking")
		h.Reach("tombstoned")
	}
	vhCheckInvL(h, k, ctx, st)
}

// VH_C14_tombstone_absorbing: whatever is aimed at a tombstoned validator later (lock,
// unlock, weight change, votes, more evidence), it stays tombstoned with zero power, out of
// the ranking, and the next EndBlocker keeps / puts it out of the validator set.
func VH_C14_tombstone_absorbing(h *vrt.H) {
	k, ctx := vhKeeper(h)
	ws := []uint64{[]uint64{0, 1, 3_000_000_000_000_000_000}[h.Choose("weight", 0, 2)]}
	st := vhBuild(h, k, ctx, 1, 1, ws)
	pre := vhSnapshot(h, k, ctx, st)
	h.Assume(pre.Val[0].Status == types.Tombstoned)
	ctx = ctx.WithBlockTime(time.Unix(int64(h.U32("now")), 0).UTC()).WithBlockHeight(10)
	amt := h.Big("amount", "0", vhBig)
	var err error
	switch h.Choose("op", 0, 4) {
	case 0:
		err = k.Lock(ctx, []*goattypes.LockRequest{{Validator: vhEthAddr(vhAddr(0)), Token: st.Tokens[0].Addr, Amount: amt}})
	case 1:
		err = k.Unlock(ctx, []*goattypes.UnlockRequest{{Id: 1, Validator: vhEthAddr(vhAddr(0)), Token: st.Tokens[0].Addr, Amount: amt}})
	case 2:
		if h.Panics(func() {
			err = k.UpdateTokens(ctx, []*goattypes.UpdateTokenWeightRequest{{Token: st.Tokens[0].Addr, Weight: h.U64("newWeight")}}, nil)
		}) {
			h.Reach("panicked-recovered-by-runtx")
			return
		}
	case 3:
		err = k.HandleVoteInfos(ctx.WithVoteInfos([]abci.VoteInfo{{Validator: abci.Validator{Address: vhAddr(0), Power: 1}, BlockIdFlag: cmtproto.BlockIDFlagAbsent}}))
	case 4:
		err = k.HandleEvidences(ctx.WithCometInfo(vhBlockInfo{ev: vhEvidenceList{{typ: comet.DuplicateVote, addr: vhAddr(0), height: 9}}}))
	}
	if err != nil {
		h.Reach("refused")
		return
	}
	v, verr := k.Validators.Get(ctx, vhAddr(0))
	vhMust(verr)
	h.Assert(v.Status == types.Tombstoned && v.Power == 0, "tombstoned-is-absorbing")
	vhCheckInvL(h, k, ctx, st)
	vhCheckEndBlock(h, k, ctx, 1, st.K)
	member, _ := k.ValidatorSet.Has(ctx, vhAddr(0))
	h.Assert(!member, "tombstoned-never-in-validator-set-after-endblock")
	h.Reach("end")
}

// VH_C14_unjail: a jailed validator returns (to Pending) only through a lock after the jail
// time has passed AND with holdings meeting every token threshold.
func VH_C14_unjail(h *vrt.H) {
	k, ctx := vhKeeper(h)
	ws := []uint64{[]uint64{0, 1}[h.Choose("weight", 0, 1)]}
	st := vhBuild(h, k, ctx, 1, 1, ws)
	pre := vhSnapshot(h, k, ctx, st)
	h.Assume(pre.Val[0].Status == types.Downgrade)
	jailedUntil := time.Unix(int64(h.U32("jailedUntil")), 0).UTC()
	v0 := pre.Val[0]
	v0.JailedUntil = jailedUntil
	vhMust(k.Validators.Set(ctx, vhAddr(0), v0))
	now := time.Unix(int64(h.U32("now")), 0).UTC()
	ctx = ctx.WithBlockTime(now)
	amt := h.Big("amount", "0", vhBig)
	err := k.Lock(ctx, []*goattypes.LockRequest{{Validator: vhEthAddr(vhAddr(0)), Token: st.Tokens[0].Addr, Amount: amt}})
	h.NoteBool("ok", err == nil)
	if err != nil {
		h.Reach("refused")
		return
	}
	v, verr := k.Validators.Get(ctx, vhAddr(0))
	vhMust(verr)
	held := v.Locking.AmountOf("btc")
	h.Assert(held.Equal(v0.Locking.AmountOf("btc").Add(math.NewIntFromBigInt(amt))), "lock-credited")
	mayReturn := now.After(jailedUntil) && held.GTE(st.Tokens[0].Threshold)
	if v.Status == types.Pending {
		h.Assert(mayReturn, "unjail-only-after-jail-time-and-with-thresholds-met")
		h.Reach("unjailed")
	} else {
		h.Assert(v.Status == types.Downgrade && v.Power == 0, "still-jailed-keeps-zero-power")
		h.Assert(!mayReturn, "eligible-validator-is-unjailed")
		h.Reach("still-jailed")
	}
	vhCheckInvL(h, k, ctx, st)
}

// VH_C14_promotion: a validator the EndBlocker promotes into the set starts a fresh signing
// window - the offence it was jailed for before is not punished a second time: a PRESENT vote
// in its first block as a member leaves it active, with its power and holdings, and nothing
// is slashed. Also Inv_L (members' windows in range) holds after any EndBlocker.
func VH_C14_promotion(h *vrt.H) {
	n := 2
	k, ctx := vhKeeper(h)
	st := vhBuild(h, k, ctx, n, 1, []uint64{1})
	pre := vhSnapshot(h, k, ctx, st)
	_, err := k.EndBlocker(ctx)
	h.Assert(err == nil, "endblocker-never-fails")
	if err != nil {
		return
	}
	vhCheckInvL(h, k, ctx, st)
	target := h.Choose("target", 0, n-1)
	mid := vhSnapshot(h, k, ctx, st)
	if !(pre.Val[target].Status == types.Pending && mid.Val[target].Status == types.Active) {
		h.Reach("not-promoted")
		return
	}
	ctx = ctx.WithBlockTime(time.Unix(int64(h.U32("now")), 0).UTC()).
		WithVoteInfos([]abci.VoteInfo{{Validator: abci.Validator{Address: vhAddr(target), Power: 1}, BlockIdFlag: cmtproto.BlockIDFlagCommit}})
	err = k.HandleVoteInfos(ctx)
	h.Assert(err == nil, "vote-handling-never-fails")
	post := vhSnapshot(h, k, ctx, st)
	a, b := mid.Val[target], post.Val[target]
	h.Assert(b.Status == types.Active && b.Power == a.Power && b.Locking.AmountOf(st.Tokens[0].Denom).Equal(a.Locking.AmountOf(st.Tokens[0].Denom)) && post.Slashed[0].Equal(mid.Slashed[0]),
		"a-promoted-validator-is-not-punished-again-for-an-old-offence")
	h.Reach("promoted-then-voted")
}
