package locking

import (
	"bytes"
	"time"

	"cosmossdk.io/collections"
	"cosmossdk.io/math"
	abci "github.com/cometbft/cometbft/abci/types"
	tmcrypto "github.com/cometbft/cometbft/proto/tendermint/crypto"
	"github.com/cosmos/cosmos-sdk/crypto/keys/secp256k1"
	sdk "github.com/cosmos/cosmos-sdk/types"
	"github.com/goatnetwork/goat/x/locking/keeper"
	"github.com/goatnetwork/goat/x/locking/types"
	"github.com/goatnetwork/goat/zzverif/vrt"
)

func vhMust(err error) {
	if err != nil {
		panic("vh: harness state construction failed: " + err.Error())
	}
}

func vhKey(i int) []byte {
	p := make([]byte, 33)
	p[0], p[32] = 0x02, byte(i+1)
	return p
}

func vhAddrOf(i int) sdk.ConsAddress {
	return sdk.ConsAddress((&secp256k1.PubKey{Key: vhKey(i)}).Address())
}

const vhBig = "340282366920938463463374607431768211455"

// VH_C18_locking: export of any block-boundary locking state re-imports into an equal state:
// validator records, power ranking, locking index, recorded validator set (= the validator
// updates returned to CometBFT), tokens, thresholds, slashed totals, queues, nonce, pool;
// the re-imported chain's next EndBlocker behaves like the running chain's (no updates).
func VH_C18_locking(h *vrt.H) {
	ka := keeper.NewKeeper(h.Codec(), h.AddressCodec(), h.StoreService("lockingA"), nil, h.Logger())
	kb := keeper.NewKeeper(h.Codec(), h.AddressCodec(), h.StoreService("lockingB"), nil, h.Logger())
	ctx := h.Ctx()
	n := 1
	if h.Thorough() {
		n = 2
	}
	params := types.Params{UnlockDuration: time.Hour, ExitingDuration: 2 * time.Hour, DowntimeJailDuration: time.Hour, MaxValidators: int64(n + 1), SignedBlocksWindow: 100,
		MaxMissedPerWindow: 50, SlashFractionDoubleSign: math.LegacyNewDecWithPrec(5, 2), SlashFractionDowntime: math.LegacyNewDecWithPrec(1, 2), HalvingInterval: 100, InitialBlockReward: 1 << 40}
	vhMust(ka.Params.Set(ctx, params))
	thr := h.Int("threshold", "0", vhBig)
	weight := []uint64{0, 1}[h.Choose("weight", 0, 1)]
	vhMust(ka.Tokens.Set(ctx, "btc", types.Token{Weight: weight, Threshold: thr}))
	thrList := sdk.Coins{}.Add(sdk.NewCoin("btc", thr))
	vhMust(ka.Threshold.Set(ctx, types.Threshold{List: thrList}))
	slashed := h.Int("slashed", "0", vhBig)
	if h.Choose("hasSlashed", 0, 1) == 1 {
		vhMust(ka.Slashed.Set(ctx, "btc", slashed))
	}
	nonce := h.U64("nonce")
	vhMust(ka.EthTxNonce.Set(ctx, nonce))
	vhMust(ka.EthTxQueue.Set(ctx, types.EthTxQueue{}))
	pool := types.RewardPool{Goat: h.Int("poolGoat", "0", vhBig), Gas: h.Int("poolGas", "0", vhBig), Remain: h.Int("poolRemain", "0", vhBig)}
	vhMust(ka.RewardPool.Set(ctx, pool))
	type val struct {
		status types.ValidatorStatus
		power  uint64
		held   math.Int
	}
	vals := make([]val, n)
	for i := 0; i < n; i++ {
		v := val{status: types.ValidatorStatus(h.U8(h.Name("status", i))), power: h.U64(h.Name("power", i)), held: h.Int(h.Name("held", i), "0", vhBig)}
		cand := h.Either(v.status == types.Pending, v.status == types.Active)
		// block-boundary invariant
		h.Assume(h.Both(v.status >= 1, v.status <= 5))
		h.Assume(h.Implies(!cand, v.power == 0))
		h.Assume(h.Implies(v.status == types.Active, v.power > 0))
		h.Assume(h.Implies(v.status == types.Pending, v.power == 0)) // the set has room (K = n+1): a candidate with power would be a member
		h.Assume(v.power < 1<<60)
		coins := sdk.Coins{}.Add(sdk.NewCoin("btc", v.held))
		vhMust(ka.Validators.Set(ctx, vhAddrOf(i), types.Validator{Pubkey: vhKey(i), Power: v.power, Locking: coins, Status: v.status, Reward: math.ZeroInt(), GasReward: math.ZeroInt()}))
		if h.Both(cand, v.held.IsPositive()) {
			vhMust(ka.Locking.Set(ctx, collections.Join("btc", vhAddrOf(i)), v.held))
		}
		if h.Both(cand, v.power > 0) {
			vhMust(ka.PowerRanking.Set(ctx, collections.Join(v.power, vhAddrOf(i))))
		}
		if v.status == types.Active {
			vhMust(ka.ValidatorSet.Set(ctx, vhAddrOf(i), v.power))
		}
		vals[i] = v
	}
	var gs *types.GenesisState
	h.Assert(!h.Panics(func() { gs = ExportGenesis(ctx, ka) }), "export-never-panics")
	if gs == nil {
		return
	}
	var ups []abciUpdate
	imported := !h.Panics(func() { ups = InitGenesis(ctx, kb, *gs) })
	h.Assert(imported, "exported-state-re-imports-without-panic")
	if !imported {
		return
	}
	nActive := 0
	for i, v := range vals {
		rb, err := kb.Validators.Get(ctx, vhAddrOf(i))
		h.Assert(err == nil && rb.Status == v.status && rb.Power == v.power && rb.Locking.AmountOf("btc").Equal(v.held) && bytes.Equal(rb.Pubkey, vhKey(i)), "validator-records-restored")
		ra, _ := ka.PowerRanking.Has(ctx, collections.Join(v.power, vhAddrOf(i)))
		rkb, _ := kb.PowerRanking.Has(ctx, collections.Join(v.power, vhAddrOf(i)))
		h.Assert(ra == rkb, "power-ranking-restored")
		ia, _ := ka.Locking.Has(ctx, collections.Join("btc", vhAddrOf(i)))
		ib, _ := kb.Locking.Has(ctx, collections.Join("btc", vhAddrOf(i)))
		h.Assert(ia == ib, "locking-index-restored")
		sa, ea := ka.ValidatorSet.Get(ctx, vhAddrOf(i))
		sb, eb := kb.ValidatorSet.Get(ctx, vhAddrOf(i))
		h.Assert((ea == nil) == (eb == nil) && sa == sb, "recorded-validator-set-restored")
		if v.status == types.Active {
			nActive++
			found := false
			for _, u := range ups {
				pk, ok := u.PubKey.Sum.(*tmcrypto.PublicKey_Secp256K1)
				if ok && bytes.Equal(pk.Secp256K1, vhKey(i)) {
					found = u.Power == int64(v.power)
				}
			}
			h.Assert(found, "initial-validator-set-equals-the-exported-active-set")
		}
	}
	h.Assert(len(ups) == nActive, "initial-validator-set-has-no-extra-entries")
	tb, terr := kb.Tokens.Get(ctx, "btc")
	thb, _ := kb.Threshold.Get(ctx)
	h.Assert(terr == nil && tb.Weight == weight && tb.Threshold.Equal(thr) && thb.List.AmountOf("btc").Equal(thr), "tokens-and-thresholds-restored")
	slA, eA := ka.Slashed.Get(ctx, "btc")
	slB, eB := kb.Slashed.Get(ctx, "btc")
	if eA == nil {
		h.Assert(eB == nil && slA.Equal(slB) || (slA.IsZero() && eB != nil), "slashed-totals-restored")
	}
	nb, _ := kb.EthTxNonce.Peek(ctx)
	pb, _ := kb.RewardPool.Get(ctx)
	h.Assert(nb == nonce && pb.Goat.Equal(pool.Goat) && pb.Gas.Equal(pool.Gas) && pb.Remain.Equal(pool.Remain), "nonce-and-pool-restored")
	// behavioural equivalence: at a block boundary the running chain's EndBlocker reports nothing
	ua, errA := ka.EndBlocker(ctx)
	ub, errB := kb.EndBlocker(ctx)
	h.Assert(errA == nil && len(ua) == 0, "running-chain-is-at-a-block-boundary")
	h.Assert(errB == nil && len(ub) == 0, "re-imported-chain-reports-no-spurious-validator-updates")
	h.Reach("end")
}

type abciUpdate = abci.ValidatorUpdate
