#!/bin/bash
# usage: seedtest.sh <property-id> <worktree> [check ids...]
# Confirms a seeded change (compiles, baseline tests pass, demo fails with / passes without),
# stores it under /verif/seeded/<name>/ and runs the given checks against the patched worktree.
set -u
export GOFLAGS=-mod=mod GOPROXY=off GOSUMDB=off GOTOOLCHAIN=local
ID=$1; WT=$2; shift 2; CHECKS=${@:-$ID}
NAME=${SEED_NAME:-$ID}
OUT=/verif/seeded/$NAME; mkdir -p $OUT
cp $WT/zz_out/patch.diff $OUT/patch.diff
DEMO=$(cd $WT && git status --porcelain | grep '^??' | awk '{print $2}' | grep '_test.go$' | head -1)
cp $WT/$DEMO $OUT/$(basename $DEMO)
cp $WT/zz_out/notes.md $OUT/notes.md 2>/dev/null
PKG=./$(dirname $DEMO)/
cd $WT
git checkout -q -- . ; git apply zz_out/patch.diff || { echo "PATCH DOES NOT APPLY"; exit 1; }
B=$(go build ./... 2>&1 | tail -3); echo "build: ${B:-ok}"
mv $DEMO /tmp/_demo_$NAME.go
T=$(go test -vet=off -count=1 ./x/... ./pkg/... ./app/... 2>&1 | grep -v "^ok\|no test files" | tail -5); echo "baseline tests with patch: ${T:-all ok}"
mv /tmp/_demo_$NAME.go $DEMO
D1=$(go test -vet=off -count=1 $PKG 2>&1 | tail -1); echo "demo with patch: $D1"
git apply -R zz_out/patch.diff
D2=$(go test -vet=off -count=1 $PKG 2>&1 | tail -1); echo "demo without patch: $D2"
git apply zz_out/patch.diff
# the checks run against the worktree itself (patch applied there); /repo is never touched and
# the evidence of the real tree is not overwritten
SCR=/tmp/seedout_$NAME; rm -rf $SCR; mkdir -p $SCR
RES=""
for c in $CHECKS; do
  R=$(cd /verif && VERIF_REPO=$WT VERIF_OUT=$SCR ./check $c quick 2>&1 | grep -v "^\[" | grep "^VIOLATION\|^HELD\|^VIOLATED\|^INCONCLUSIVE\|^KNOWN\|violated obligation" | tail -6 | tr '\n' ' ')
  echo "check $c: $R"; RES="$RES $c: $R |"
done
rm -rf $SCR
python3 - "$NAME" "$ID" "${B:-ok}" "${T:-all ok}" "$D1" "$D2" "$RES" <<'PY'
import json,sys
name,pid,b,t,d1,d2,res=sys.argv[1:8]
notes=open(f'/verif/seeded/{name}/notes.md').read() if __import__('os').path.exists(f'/verif/seeded/{name}/notes.md') else ''
json.dump({"property":pid,"name":name,"needs_to_manifest":"see notes.md","confirmed":{"build":b,"baseline_tests_with_patch":t,"demo_with_patch":d1,"demo_without_patch":d2},"checks_run":res.strip()},open(f'/verif/seeded/{name}/meta.json','w'),indent=1)
PY
