#!/usr/bin/env python3
# validates MANIFEST.json and every evidence file against the given schemas
import json, glob, sys, jsonschema
ok = True
jsonschema.validate(json.load(open('/verif/MANIFEST.json')), json.load(open('/root/.vp/MANIFEST.schema.json')))
es = json.load(open('/root/.vp/EVIDENCE.schema.json'))
for f in sorted(glob.glob('/verif/evidence/*.json')):
    try:
        jsonschema.validate(json.load(open(f)), es)
    except Exception as e:
        ok = False; print('INVALID', f, str(e)[:300])
print('ok' if ok else 'FAILED')
