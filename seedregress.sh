#!/bin/bash
# usage: seedregress.sh [name...]      (default: every directory under /verif/seeded)
# Regression of the checks against the stored seeded corpus: each stored patch is applied to a
# scratch worktree of /repo (never to /repo itself), the property's quick check runs against it
# (VERIF_REPO / VERIF_OUT, so the evidence of the real tree is untouched) and the verdict is
# compared with what the corpus expects: a replayed VIOLATION for a breaking change, HELD for a
# behaviour-preserving one (benign_*) or one recorded as not a violation (meta.json "disposition").
set -u
export GOFLAGS=-mod=mod GOPROXY=off GOSUMDB=off GOTOOLCHAIN=local
cd /verif || exit 2
NAMES=${@:-$(ls seeded)}
bad=0
for name in $NAMES; do
  d=/verif/seeded/$name
  [ -f $d/patch.diff ] || continue
  id=$(python3 -c "import json;print(json.load(open('$d/meta.json'))['property'])")
  expect=VIOLATED
  case $name in benign_*) expect=HELD;; esac
  grep -q '"disposition"' $d/meta.json && expect=HELD
  grep -q '"expected": "INCONCLUSIVE"' $d/meta.json && expect=INCONCLUSIVE
  wt=/tmp/seedwt_$name; scr=/tmp/seedout_$name
  git -C /repo worktree remove --force $wt >/dev/null 2>&1; rm -rf $wt $scr; mkdir -p $scr
  git -C /repo worktree add -q --detach $wt HEAD || { echo "$name: worktree failed"; bad=1; continue; }
  if ! git -C $wt apply $d/patch.diff 2>/dev/null; then
    echo "$name ($id): PATCH NO LONGER APPLIES (the tree changed under it)"; git -C /repo worktree remove --force $wt; continue
  fi
  start=$(date +%s)
  out=$(VERIF_REPO=$wt VERIF_OUT=$scr ./check $id quick 2>&1 | grep "^HELD\|^VIOLATED\|^INCONCLUSIVE" | tail -1)
  verdict=$(echo "$out" | awk '{print $1}')
  if [ "$verdict" = "$expect" ]; then r=ok; else r=UNEXPECTED; bad=1; fi
  echo "$name ($id): expected $expect got ${verdict:-nothing} [$r] $(( $(date +%s) - start ))s"
  git -C /repo worktree remove --force $wt; rm -rf $scr
done
git -C /repo worktree prune
exit $bad
