package main

import (
	"encoding/json"
	"flag"
	"fmt"
	"os"
	"sort"
	"strings"
	"time"

	"golang.org/x/tools/go/ssa"
	"golang.org/x/tools/go/ssa/ssautil"
)

func main() {
	if len(os.Args) < 2 {
		fmt.Println("usage: gosym <callees|run|check> ...")
		os.Exit(2)
	}
	switch os.Args[1] {
	case "callees":
		cmdCallees()
	case "run":
		cmdRun(os.Args[2:])
	case "check":
		cmdCheck(os.Args[2:])
	case "replay":
		cmdReplay(os.Args[2:])
	default:
		fmt.Println("unknown command")
		os.Exit(2)
	}
}

func envOr(k, d string) string {
	if v := os.Getenv(k); v != "" {
		return v
	}
	return d
}

func repoDir() string  { return envOr("VERIF_REPO", "/repo") }
func verifDir() string { return envOr("VERIF_DIR", "/verif") }

// outDir: where replay files and evidence are written (VERIF_OUT lets a self-test run against a
// scratch copy of the repository without overwriting the evidence of the real tree).
func outDir() string { return envOr("VERIF_OUT", verifDir()) }

func cmdRun(args []string) {
	fs := flag.NewFlagSet("run", flag.ExitOnError)
	pkg := fs.String("pkg", "", "package import path (relative to module allowed)")
	fnName := fs.String("fn", "", "harness function name(s), comma separated")
	thorough := fs.Bool("thorough", false, "thorough tier")
	workers := fs.Int("j", 16, "workers")
	permute := fs.Bool("permute-maps", false, "explore all map iteration orders")
	logDir := fs.String("logdir", "", "dump solver transcripts")
	solver := fs.String("solver", defaultSolver(), "solver")
	timeout := fs.Int("timeout", 60000, "per-query timeout ms")
	jsonOut := fs.String("json", "", "write result JSON")
	intArith := fs.Bool("int-arith", false, "encode 64-bit unsigned mul/div in integer arithmetic")
	rangeFacts := fs.Bool("range-facts", false, "keep words converted from range-checked integers in the integer theory")
	fs.Parse(args)
	p := *pkg
	if !strings.HasPrefix(p, repoMod) {
		p = repoMod + "/" + strings.TrimPrefix(p, "/")
	}
	t0 := time.Now()
	ov, _, err := buildOverlay(repoDir(), verifDir())
	if err != nil {
		fatalf("overlay: %v", err)
	}
	L, err := loadProgram(repoDir(), ov, rootsFor([]string{p}))
	if err != nil {
		fatalf("load: %v", err)
	}
	cfg := defaultConfig()
	cfg.Thorough = *thorough
	cfg.Workers = *workers
	cfg.PermuteMaps = *permute
	cfg.RangeFacts = *rangeFacts
	cfg.LogDir = *logDir
	cfg.SolverKind = *solver
	cfg.TimeoutMs = *timeout
	LiftMulDiv = *intArith
	init := runInits(L, cfg)
	fmt.Fprintf(os.Stderr, "loaded+init in %.1fs\n", time.Since(t0).Seconds())
	sp := L.Pkgs[p]
	if sp == nil {
		fatalf("package %s not loaded", p)
	}
	var results []*HarnessRun
	for _, name := range strings.Split(*fnName, ",") {
		fn := sp.Func(name)
		if fn == nil {
			fatalf("harness %s not found in %s", name, p)
		}
		hr := explore(L, init, fn, cfg)
		fmt.Print(hr.Summary())
		for _, v := range hr.Violations {
			b, _ := json.MarshalIndent(v, "    ", "  ")
			fmt.Println("    " + string(b))
		}
		results = append(results, hr)
	}
	if *jsonOut != "" {
		b, _ := json.MarshalIndent(results, "", " ")
		os.WriteFile(*jsonOut, b, 0o644)
	}
}

func cmdCallees() {
	t0 := time.Now()
	roots := []string{repoMod + "/x/bitcoin/keeper", repoMod + "/x/bitcoin/types", repoMod + "/x/relayer/keeper", repoMod + "/x/relayer/types",
		repoMod + "/x/locking/keeper", repoMod + "/x/locking/types", repoMod + "/x/goat/keeper", repoMod + "/x/goat/types", repoMod + "/app", repoMod + "/pkg/crypto",
		repoMod + "/x/bitcoin/module", repoMod + "/x/relayer/module", repoMod + "/x/locking/module", repoMod + "/x/goat/module"}
	l, err := loadProgram("/repo", nil, roots)
	if err != nil {
		fmt.Println(err)
		os.Exit(2)
	}
	fmt.Fprintln(os.Stderr, "loaded in", time.Since(t0))
	counts := map[string]int{}
	for fn := range ssautil.AllFunctions(l.Prog) {
		if fn.Pkg == nil || !strings.HasPrefix(fn.Pkg.Pkg.Path(), repoMod) || fn.Blocks == nil {
			continue
		}
		if strings.Contains(fn.Pkg.Pkg.Path(), "/api/") {
			continue
		}
		file := l.Prog.Fset.Position(fn.Pos()).Filename
		if strings.HasSuffix(file, ".pb.go") || strings.HasSuffix(file, ".pb.gw.go") {
			continue
		}
		for _, b := range fn.Blocks {
			for _, in := range b.Instrs {
				var cc *ssa.CallCommon
				switch x := in.(type) {
				case *ssa.Call:
					cc = &x.Call
				case *ssa.Defer:
					cc = &x.Call
				case *ssa.Go:
					cc = &x.Call
				}
				if cc == nil {
					continue
				}
				if cc.IsInvoke() {
					counts["invoke "+cc.Value.Type().String()+"."+cc.Method.Name()]++
					continue
				}
				if f := cc.StaticCallee(); f != nil {
					if f.Blocks == nil {
						if _, ok := intrinsics[funcKey(f)]; !ok {
							counts[funcKey(f)]++
						}
					}
				}
			}
		}
	}
	var keys []string
	for k := range counts {
		keys = append(keys, k)
	}
	sort.Strings(keys)
	for _, k := range keys {
		fmt.Printf("%4d %s\n", counts[k], k)
	}
}
