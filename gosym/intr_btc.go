package main

// Bitcoin library boundary (btcd wire/txscript/btcutil/schnorr): contracts, not code.

import (
	"fmt"
	"go/types"
	"strconv"
	"strings"

	"golang.org/x/tools/go/ssa"
)

type absTx struct {
	values  []*Term   // BV64 each
	scripts [][]*Term // bytes
}

type btcAddr struct {
	kind   int
	prog   []*Term
	forNet bool
}

type scriptBuilder struct {
	b   []*Term
	err bool
}

type ecPub struct {
	x []*Term // 32 bytes x-only
}

func le(t *Term, nbytes int) []*Term {
	out := make([]*Term, nbytes)
	for i := 0; i < nbytes; i++ {
		out[i] = Extract(8*i+7, 8*i, t)
	}
	return out
}

func constBytes(bs ...byte) []*Term {
	out := make([]*Term, len(bs))
	for i, b := range bs {
		out[i] = BVU(8, uint64(b))
	}
	return out
}

func canonicalPush(data []*Term) []*Term {
	n := len(data)
	switch {
	case n == 0:
		return constBytes(0x00)
	case n <= 75:
		return append(constBytes(byte(n)), data...)
	case n <= 255:
		return append(constBytes(0x4c, byte(n)), data...)
	default:
		return append(constBytes(0x4d, byte(n), byte(n>>8)), data...)
	}
}

func (e *Exec) btcType(name string) types.Type {
	for _, p := range e.L.Prog.AllPackages() {
		if p.Pkg.Path() == "github.com/btcsuite/btcd/btcutil" {
			if o := p.Pkg.Scope().Lookup(name); o != nil {
				return types.NewPointer(o.Type())
			}
		}
	}
	return types.NewPointer(errDynType)
}

var addrTypeNames = []string{"AddressPubKeyHash", "AddressScriptHash", "AddressWitnessPubKeyHash", "AddressWitnessScriptHash", "AddressTaproot", "AddressPubKey", "", "AddressPubKey", "AddressPubKey"}

func (e *Exec) addrIface(a *btcAddr) IfaceV {
	return IfaceV{T: e.btcType(addrTypeNames[a.kind]), V: OpaqueV{Kind: "btcaddr", Data: a}}
}

func addrScript(a *btcAddr) []*Term {
	switch a.kind {
	case 0:
		return append(append(constBytes(0x76, 0xa9, 0x14), a.prog...), constBytes(0x88, 0xac)...)
	case 1:
		return append(append(constBytes(0xa9, 0x14), a.prog...), constBytes(0x87)...)
	case 2:
		return append(constBytes(0x00, 0x14), a.prog...)
	case 3:
		return append(constBytes(0x00, 0x20), a.prog...)
	case 4:
		return append(constBytes(0x51, 0x20), a.prog...)
	case 5:
		return append(append(constBytes(0x21), a.prog...), constBytes(0xac)...)
	case 7, 8: // uncompressed / hybrid key: OP_DATA_65 <key> OP_CHECKSIG
		return append(append(constBytes(0x41), a.prog...), constBytes(0xac)...)
	}
	return nil
}

func init() {
	I := intrinsics
	// ---- transactions ----
	I[vrtKey("BtcTx")] = func(e *Exec, fn *ssa.Function, a []Value) Value {
		vals := a[1].(SliceV)
		scrs := a[2].(SliceV)
		if vals.Len != scrs.Len {
			panic(&GoPanic{Msg: "BtcTx: values/scripts length mismatch"})
		}
		if vals.Len >= 0xfd {
			panic(abortf("UNSUPPORTED BtcTx with %d outputs", vals.Len))
		}
		tx := &absTx{}
		var out []*Term
		out = append(out, constBytes(2, 0, 0, 0, 1)...) // version 2, one input
		for i := 0; i < 32; i++ {
			out = append(out, BVU(8, 0))
		}
		out = append(out, constBytes(0, 0, 0, 0, 0, 0xff, 0xff, 0xff, 0xff)...) // index 0, empty script, sequence
		out = append(out, BVU(8, uint64(vals.Len)))
		for i := 0; i < vals.Len; i++ {
			v := vals.A.E[vals.Off+i].(*Term)
			sc := sliceTerms(scrs.A.E[scrs.Off+i])
			if len(sc) >= 0xfd {
				panic(abortf("UNSUPPORTED BtcTx script of %d bytes", len(sc)))
			}
			tx.values = append(tx.values, v)
			tx.scripts = append(tx.scripts, sc)
			if intBacked(v) {
				// integer-arithmetic mode: the serialised value bytes are left unconstrained
				// (over-approximation; keeps the hash terms free of int<->bit-vector conversions)
				out = append(out, le(e.freshVar("txvalue", BVSort(64)), 8)...)
			} else {
				out = append(out, le(v, 8)...)
			}
			out = append(out, BVU(8, uint64(len(sc))))
			out = append(out, sc...)
		}
		out = append(out, constBytes(0, 0, 0, 0)...)
		sv := mkByteSlice(out)
		if e.txs == nil {
			e.txs = map[*ArrObj]*absTx{}
		}
		e.txs[sv.A] = tx
		return sv
	}
	I["(*github.com/btcsuite/btcd/wire.MsgTx).DeserializeNoWitness"] = func(e *Exec, fn *ssa.Function, a []Value) Value {
		// a[1] is an io.Reader; the repository always passes a *bytes.Reader over the message bytes
		rd, ok := a[1].(IfaceV)
		if !ok || rd.T == nil {
			panic(abortf("UNSUPPORTED DeserializeNoWitness reader"))
		}
		rp := rd.V.(PtrV)
		rs := e.peek(rp).(*StructV) // bytes.Reader{s []byte; i int64; prevRune int}
		data := rs.F[0].(SliceV)
		tx := e.txs[data.A]
		if tx == nil || data.Off != 0 || data.Len != len(data.A.E) {
			// bytes not produced by the transaction generator: treated as undecodable
			return newErr("wire: cannot decode transaction (bytes not produced by h.BtcTx)")
		}
		rs.F[1] = BVI(64, int64(data.Len)) // everything consumed
		// fill the MsgTx: Version, TxIn, TxOut, LockTime
		mp := a[0].(PtrV)
		mt := fn.Signature.Recv().Type().(*types.Pointer).Elem().Underlying().(*types.Struct)
		msg := e.peek(mp).(*StructV)
		for i := 0; i < mt.NumFields(); i++ {
			switch mt.Field(i).Name() {
			case "Version":
				msg.F[i] = BVI(32, 2)
			case "TxOut":
				et := mt.Field(i).Type().Underlying().(*types.Slice).Elem().(*types.Pointer).Elem()
				est := et.Underlying().(*types.Struct)
				arr := &ArrObj{}
				for j := range tx.values {
					o := e.zero(et).(*StructV)
					for f := 0; f < est.NumFields(); f++ {
						switch est.Field(f).Name() {
						case "Value":
							o.F[f] = tx.values[j]
						case "PkScript":
							o.F[f] = mkByteSliceOrNil(tx.scripts[j])
						}
					}
					arr.E = append(arr.E, PtrV{C: e.newCell(o)})
				}
				msg.F[i] = SliceV{A: arr, Len: len(arr.E), Cap: len(arr.E)}
				if len(arr.E) == 0 {
					msg.F[i] = SliceV{}
				}
			}
		}
		return IfaceV{}
	}

	// ---- script builder ----
	const TS = "github.com/btcsuite/btcd/txscript"
	sbOf := func(v Value) *scriptBuilder { return v.(PtrV).Opq.(*OpaqueObj).Data.(*scriptBuilder) }
	I[TS+".NewScriptBuilder"] = func(e *Exec, fn *ssa.Function, a []Value) Value {
		return PtrV{Opq: &OpaqueObj{Kind: "scriptbuilder", Data: &scriptBuilder{}}}
	}
	I["(*"+TS+".ScriptBuilder).AddOp"] = func(e *Exec, fn *ssa.Function, a []Value) Value {
		sb := sbOf(a[0])
		sb.b = append(sb.b, a[1].(*Term))
		return a[0]
	}
	addData := func(e *Exec, fn *ssa.Function, a []Value) Value {
		sb := sbOf(a[0])
		data := sliceTerms(a[1])
		if len(data) == 1 {
			panic(abortf("UNSUPPORTED single-byte script push (small-int opcodes)"))
		}
		if len(data) > 520 && !strings.HasSuffix(fn.Name(), "AddFullData") {
			sb.err = true
			return a[0]
		}
		sb.b = append(sb.b, canonicalPush(data)...)
		return a[0]
	}
	I["(*"+TS+".ScriptBuilder).AddData"] = addData
	I["(*"+TS+".ScriptBuilder).AddFullData"] = addData
	I["(*"+TS+".ScriptBuilder).Script"] = func(e *Exec, fn *ssa.Function, a []Value) Value {
		sb := sbOf(a[0])
		if sb.err {
			return TupleV{V: []Value{SliceV{}, newErr("script builder error")}}
		}
		return TupleV{V: []Value{mkByteSliceOrNil(append([]*Term{}, sb.b...)), IfaceV{}}}
	}

	// ---- schnorr / taproot ----
	const SCH = "github.com/btcsuite/btcd/btcec/v2/schnorr"
	I[vrtKey("SchnorrKey")] = func(e *Exec, fn *ssa.Function, a []Value) Value {
		return mkByteSlice(mkToken(32, 0x5C, 0x4B, e.concreteInt(a[1], "signer")))
	}
	I[SCH+".ParsePubKey"] = func(e *Exec, fn *ssa.Function, a []Value) Value {
		bs := sliceTerms(a[0])
		if _, ok := tokenIndex(bs, 32, 0x5C, 0x4B); !ok {
			// not a key produced by h.SchnorrKey: whether arbitrary bytes are on the curve is not modelled
			return TupleV{V: []Value{PtrV{}, newErr("schnorr: not a generated key")}}
		}
		return TupleV{V: []Value{PtrV{Opq: &OpaqueObj{Kind: "ecpub", Data: &ecPub{x: bs}}}, IfaceV{}}}
	}
	I[SCH+".SerializePubKey"] = func(e *Exec, fn *ssa.Function, a []Value) Value {
		return mkByteSlice(a[0].(PtrV).Opq.(*OpaqueObj).Data.(*ecPub).x)
	}
	tweak := func(e *Exec, key *ecPub, root []*Term) Value {
		in := append(append([]*Term{}, key.x...), root...)
		return PtrV{Opq: &OpaqueObj{Kind: "ecpub", Data: &ecPub{x: e.hashUFAlways("taptweak", in, 32)}}}
	}
	I[TS+".ComputeTaprootOutputKey"] = func(e *Exec, fn *ssa.Function, a []Value) Value {
		return tweak(e, a[0].(PtrV).Opq.(*OpaqueObj).Data.(*ecPub), sliceTerms(a[1]))
	}
	I[TS+".ComputeTaprootKeyNoScript"] = func(e *Exec, fn *ssa.Function, a []Value) Value {
		return tweak(e, a[0].(PtrV).Opq.(*OpaqueObj).Data.(*ecPub), nil)
	}

	// ---- addresses ----
	const BU = "github.com/btcsuite/btcd/btcutil"
	I[vrtKey("BtcAddr")] = func(e *Exec, fn *ssa.Function, a []Value) Value {
		kind := e.concreteInt(a[1], "address kind")
		if kind < 0 || kind == 6 || kind > 8 {
			return StrV{S: "this-is-not-a-bitcoin-address"}
		}
		prog := sliceTerms(a[2])
		switch kind {
		case 5:
			prog = mkToken(33, 0x02, 0xEC, 1)
		case 7:
			prog = mkToken(65, 0x04, 0xEC, 1)
		case 8:
			prog = mkToken(65, 0x06, 0xEC, 1)
		}
		fn_ := a[3].(*Term)
		if !fn_.IsConst() {
			panic(abortf("UNSUPPORTED symbolic forNet flag"))
		}
		id := len(e.addrs)
		e.addrs = append(e.addrs, &btcAddr{kind: kind, prog: append([]*Term{}, prog...), forNet: fn_.B})
		return StrV{S: "btcaddr:" + strconv.Itoa(id)}
	}
	I[BU+".DecodeAddress"] = func(e *Exec, fn *ssa.Function, a []Value) Value {
		s := a[0].(StrV)
		if !s.IsConcrete() || !strings.HasPrefix(s.S, "btcaddr:") {
			return TupleV{V: []Value{IfaceV{}, newErr("decoded address is of unknown format")}}
		}
		id, err := strconv.Atoi(strings.TrimPrefix(s.S, "btcaddr:"))
		if err != nil || id >= len(e.addrs) {
			return TupleV{V: []Value{IfaceV{}, newErr("decoded address is of unknown format")}}
		}
		// base58 addresses (p2pkh, p2sh, and the p2pk kind whose string form is the base58
		// pubkey-hash encoding) carry a network id that btcutil.DecodeAddress matches against
		// the given network itself (ErrUnknownAddressType otherwise); only the bech32 kinds
		// come back as an address of another network and are left to IsForNet
		if ad := e.addrs[id]; !ad.forNet && (ad.kind == 0 || ad.kind == 1 || ad.kind == 5) {
			return TupleV{V: []Value{IfaceV{}, newErr("unknown address type")}}
		}
		return TupleV{V: []Value{e.addrIface(e.addrs[id]), IfaceV{}}}
	}
	newAddr := func(kind, n int) Intrinsic {
		return func(e *Exec, fn *ssa.Function, a []Value) Value {
			prog := sliceTerms(a[0])
			if len(prog) != n {
				return TupleV{V: []Value{PtrV{}, newErr("witness program must be " + fmt.Sprint(n) + " bytes")}}
			}
			ad := &btcAddr{kind: kind, prog: append([]*Term{}, prog...), forNet: true}
			return TupleV{V: []Value{PtrV{Opq: &OpaqueObj{Kind: "btcaddr", Data: ad}}, IfaceV{}}}
		}
	}
	I[BU+".NewAddressWitnessPubKeyHash"] = newAddr(2, 20)
	I[BU+".NewAddressWitnessScriptHash"] = newAddr(3, 32)
	I[BU+".NewAddressTaproot"] = newAddr(4, 32)
	I[TS+".PayToAddrScript"] = func(e *Exec, fn *ssa.Function, a []Value) Value {
		ad := btcAddrOf(a[0])
		if ad == nil {
			return TupleV{V: []Value{SliceV{}, newErr("unsupported address type")}}
		}
		return TupleV{V: []Value{mkByteSlice(addrScript(ad)), IfaceV{}}}
	}
}

func btcAddrOf(v Value) *btcAddr {
	switch x := v.(type) {
	case IfaceV:
		if x.T == nil {
			return nil
		}
		return btcAddrOf(x.V)
	case OpaqueV:
		if a, ok := x.Data.(*btcAddr); ok {
			return a
		}
	case PtrV:
		if oo, ok := x.Opq.(*OpaqueObj); ok {
			if a, ok := oo.Data.(*btcAddr); ok {
				return a
			}
		}
	}
	return nil
}

// hashUFAlways: like hashUF but never evaluated concretely (no native counterpart in the engine)
func (e *Exec) hashUFAlways(name string, in []*Term, outBytes int) []*Term {
	uf := fmt.Sprintf("%s_%d", name, len(in))
	var outT *Term
	if len(in) == 0 {
		outT = UF(uf, BVSort(8*outBytes))
	} else {
		outT = UF(uf, BVSort(8*outBytes), joinBytes(in))
	}
	if e.hashApps == nil {
		e.hashApps = map[string][]hashApp{}
	}
	for _, prev := range e.hashApps[name] {
		if len(prev.in) == len(in) && sameTerms(prev.in, in) {
			return splitBytes(prev.out)
		}
	}
	for _, prev := range e.hashApps[name] {
		if len(prev.in) != len(in) {
			e.assume(Not(Eq(prev.out, outT)))
			continue
		}
		e.assume(Eq(Eq(prev.out, outT), bytesEq(prev.in, in)))
	}
	e.hashApps[name] = append(e.hashApps[name], hashApp{in: in, out: outT})
	return splitBytes(outT)
}
