package main

// go-ethereum (goat-geth) transaction objects: an opaque record (module, action, nonce,
// data) where data is produced by the REAL goattypes Encode methods (executed from SSA).
// MarshalBinary is an injective fixed-layout encoding of the record (not RLP).

import (
	"golang.org/x/tools/go/ssa"
)

type ethTx struct {
	module, action *Term
	nonce          *Term
	data           []*Term
}

func ethTxOf(v Value) *ethTx {
	p, ok := v.(PtrV)
	if !ok || p.IsNil() {
		panic(&GoPanic{Msg: "nil *types.Transaction"})
	}
	oo, ok := p.Opq.(*OpaqueObj)
	if !ok {
		panic(abortf("UNSUPPORTED transaction object %T", p.Opq))
	}
	return oo.Data.(*ethTx)
}

func init() {
	I := intrinsics
	const ET = "github.com/ethereum/go-ethereum/core/types"
	I[ET+".NewGoatTx"] = func(e *Exec, fn *ssa.Function, a []Value) Value {
		// a[3] is a goattypes.Tx interface value: call its real Encode
		iv := a[3].(IfaceV)
		if iv.T == nil {
			panic(&GoPanic{Msg: "NewGoatTx: nil inner tx"})
		}
		ms := e.L.Prog.MethodSets.MethodSet(iv.T)
		var enc Value
		for i := 0; i < ms.Len(); i++ {
			if ms.At(i).Obj().Name() == "Encode" {
				f := e.L.Prog.MethodValue(ms.At(i))
				enc = e.callFunction(f, []Value{iv.V}, nil, nil)
			}
		}
		if enc == nil {
			panic(abortf("UNSUPPORTED goat tx without Encode"))
		}
		tx := &ethTx{module: a[0].(*Term), action: a[1].(*Term), nonce: a[2].(*Term), data: sliceTerms(enc)}
		return PtrV{Opq: &OpaqueObj{Kind: "goattx", Data: tx}}
	}
	I[ET+".NewTx"] = func(e *Exec, fn *ssa.Function, a []Value) Value {
		iv := a[0].(IfaceV)
		p, ok := iv.V.(PtrV)
		if !ok {
			panic(abortf("UNSUPPORTED NewTx of %T", iv.V))
		}
		oo, ok := p.Opq.(*OpaqueObj)
		if !ok || oo.Kind != "goattx" {
			panic(abortf("UNSUPPORTED NewTx of a non-goat transaction"))
		}
		return PtrV{Opq: &OpaqueObj{Kind: "ethtx", Data: oo.Data}}
	}
	I["(*"+ET+".Transaction).Nonce"] = func(e *Exec, fn *ssa.Function, a []Value) Value { return ethTxOf(a[0]).nonce }
	I["(*"+ET+".Transaction).Data"] = func(e *Exec, fn *ssa.Function, a []Value) Value {
		return mkByteSliceOrNil(append([]*Term{}, ethTxOf(a[0]).data...))
	}
	I["(*"+ET+".Transaction).Type"] = func(e *Exec, fn *ssa.Function, a []Value) Value { return BVU(8, 0x60) }
	I["(*"+ET+".Transaction).IsGoatTx"] = func(e *Exec, fn *ssa.Function, a []Value) Value { return tTrue }
	I["(*"+ET+".Transaction).MarshalBinary"] = func(e *Exec, fn *ssa.Function, a []Value) Value {
		tx := ethTxOf(a[0])
		out := []*Term{BVU(8, 0x60), tx.module, tx.action}
		out = append(out, le(tx.nonce, 8)...)
		out = append(out, tx.data...)
		return TupleV{V: []Value{mkByteSlice(out), IfaceV{}}}
	}
	// transaction signing on the proposer side: the signature itself is not the subject
	I["github.com/cosmos/cosmos-sdk/client/tx.SignWithPrivKey"] = func(e *Exec, fn *ssa.Function, a []Value) Value {
		return TupleV{V: []Value{e.zero(fn.Signature.Results().At(0).Type()), IfaceV{}}}
	}
	I["(*cosmossdk.io/x/tx/signing.HandlerMap).DefaultMode"] = func(e *Exec, fn *ssa.Function, a []Value) Value {
		return BVI(32, 1) // SIGN_MODE_DIRECT
	}
	const EC = "github.com/ethereum/go-ethereum/common"
	I[EC+".LeftPadBytes"] = func(e *Exec, fn *ssa.Function, a []Value) Value {
		bs := sliceTerms(a[0])
		n := e.concreteInt(a[1], "pad length")
		if len(bs) >= n {
			return mkByteSliceOrNil(bs)
		}
		out := make([]*Term, n)
		for i := range out {
			out[i] = BVU(8, 0)
		}
		copy(out[n-len(bs):], bs)
		return mkByteSlice(out)
	}
	I[EC+".RightPadBytes"] = func(e *Exec, fn *ssa.Function, a []Value) Value {
		bs := sliceTerms(a[0])
		n := e.concreteInt(a[1], "pad length")
		if len(bs) >= n {
			return mkByteSliceOrNil(bs)
		}
		out := make([]*Term, n)
		for i := range out {
			out[i] = BVU(8, 0)
		}
		copy(out, bs)
		return mkByteSlice(out)
	}
	I[EC+".CopyBytes"] = func(e *Exec, fn *ssa.Function, a []Value) Value {
		s, ok := a[0].(SliceV)
		if !ok || s.A == nil {
			return SliceV{}
		}
		return mkByteSlice(sliceTerms(s))
	}
}
