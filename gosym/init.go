package main

import (
	"fmt"
	"os"
	"sort"

	"golang.org/x/tools/go/ssa"
)

// InitState holds package-level variables of the root packages after their
// initialisers were executed once (concretely, leniently: calls into body-less
// dependencies without a model return zero values). Paths clone what they touch.
type InitState struct {
	Globals map[*ssa.Global]*Cell
	Notes   []string
}

func runInits(L *Loaded, cfg *RunConfig) *InitState {
	e := newExec(L, nil, cfg, nil)
	e.lenient = true
	e.H = newHarnessRun("", "init")
	e.initMode = true
	e.LenientCalls = map[string]int{}
	var names []string
	for p := range L.rootSet() {
		names = append(names, p)
	}
	sort.Strings(names)
	st := &InitState{}
	for _, p := range names {
		sp := L.Pkgs[p]
		if sp == nil {
			continue
		}
		initFn := sp.Func("init")
		if initFn == nil || initFn.Blocks == nil {
			continue
		}
		func() {
			defer func() {
				if r := recover(); r != nil {
					switch x := r.(type) {
					case *pathAbort:
						st.Notes = append(st.Notes, fmt.Sprintf("init %s aborted: %s %s", p, x.Kind, x.Msg))
					case *GoPanic:
						st.Notes = append(st.Notes, fmt.Sprintf("init %s panicked: %s", p, x.Msg))
					default:
						panic(r)
					}
				}
			}()
			e.runFunction(initFn, nil, nil)
		}()
	}
	st.Globals = e.globals
	for k, n := range e.LenientCalls {
		st.Notes = append(st.Notes, fmt.Sprintf("lenient zero result x%d: %s", n, k))
	}
	sort.Strings(st.Notes)
	if os.Getenv("GOSYM_DEBUG") != "" {
		for _, n := range st.Notes {
			fmt.Fprintln(os.Stderr, "INIT:", n)
		}
	}
	return st
}

// cloneGraph deep-clones a value graph preserving aliasing (memo shared per path).
type cloner struct {
	cells map[*Cell]*Cell
	arrs  map[*ArrObj]*ArrObj
	maps  map[*MapObj]*MapObj
}

func newCloner() *cloner {
	return &cloner{cells: map[*Cell]*Cell{}, arrs: map[*ArrObj]*ArrObj{}, maps: map[*MapObj]*MapObj{}}
}

func (c *cloner) cell(x *Cell) *Cell {
	if x == nil {
		return nil
	}
	if n, ok := c.cells[x]; ok {
		return n
	}
	n := &Cell{Name: x.Name, id: x.id}
	c.cells[x] = n
	n.V = c.val(x.V)
	return n
}

func (c *cloner) arr(x *ArrObj) *ArrObj {
	if x == nil {
		return nil
	}
	if n, ok := c.arrs[x]; ok {
		return n
	}
	n := &ArrObj{E: make([]Value, len(x.E))}
	c.arrs[x] = n
	for i, v := range x.E {
		n.E[i] = c.val(v)
	}
	return n
}

func (c *cloner) val(v Value) Value {
	switch x := v.(type) {
	case *StructV:
		f := make([]Value, len(x.F))
		for i := range f {
			f[i] = c.val(x.F[i])
		}
		return &StructV{F: f}
	case ArrayV:
		return ArrayV{A: c.arr(x.A)}
	case SliceV:
		return SliceV{A: c.arr(x.A), Off: x.Off, Len: x.Len, Cap: x.Cap}
	case PtrV:
		return PtrV{C: c.cell(x.C), Path: x.Path, Arr: c.arr(x.Arr), Idx: x.Idx, Opq: x.Opq}
	case MapV:
		if x.M == nil {
			return x
		}
		if n, ok := c.maps[x.M]; ok {
			return MapV{M: n}
		}
		n := &MapObj{}
		c.maps[x.M] = n
		for _, en := range x.M.E {
			n.E = append(n.E, &MapEntry{K: c.val(en.K), V: c.val(en.V), Deleted: en.Deleted})
		}
		return MapV{M: n}
	case IfaceV:
		return IfaceV{T: x.T, V: c.val(x.V)}
	case TupleV:
		f := make([]Value, len(x.V))
		for i := range f {
			f[i] = c.val(x.V[i])
		}
		return TupleV{V: f}
	case FuncV:
		if len(x.Binds) == 0 {
			return x
		}
		b := make([]Value, len(x.Binds))
		for i := range b {
			b[i] = c.val(x.Binds[i])
		}
		return FuncV{Fn: x.Fn, Binds: b, Intr: x.Intr, Recv: x.Recv, Go: x.Go}
	}
	return v
}
