package main

import (
	"golang.org/x/tools/go/ssa"
)

type sigEntry struct {
	mask []*Term
	msg  []*Term
}

func keyToken(i int) []*Term {
	out := make([]*Term, 96)
	for j := range out {
		out[j] = BVU(8, 0)
	}
	out[0], out[1], out[2], out[3] = BVU(8, 0xB5), BVU(8, 0x4B), BVU(8, uint64(i&0xff)), BVU(8, uint64(i>>8))
	return out
}

func tokenIndex(bs []*Term, n int, m0, m1 byte) (int, bool) {
	if len(bs) != n {
		return 0, false
	}
	raw, ok := concreteBytes(bs)
	if !ok || raw[0] != m0 || raw[1] != m1 {
		return 0, false
	}
	for _, b := range raw[4:] {
		if b != 0 {
			return 0, false
		}
	}
	return int(raw[2]) | int(raw[3])<<8, true
}

type sigRec struct {
	kind string // "bls" or "ecdsa"
	key  int
	msg  []*Term
}

func mkToken(n int, m0, m1 byte, id int) []*Term {
	out := make([]*Term, n)
	for j := range out {
		out[j] = BVU(8, 0)
	}
	out[0], out[1], out[2], out[3] = BVU(8, uint64(m0)), BVU(8, uint64(m1)), BVU(8, uint64(id&0xff)), BVU(8, uint64(id>>8))
	return out
}

func init() {
	I := intrinsics
	// single signatures: token -> (kind, key index, message); verification = exact match
	I[vrtKey("BLSSig")] = func(e *Exec, fn *ssa.Function, a []Value) Value {
		id := len(e.sigRecs)
		e.sigRecs = append(e.sigRecs, sigRec{kind: "bls", key: e.concreteInt(a[1], "signer"), msg: append([]*Term{}, sliceTerms(a[2])...)})
		return mkByteSlice(mkToken(48, 0xA7, 0x52, id))
	}
	I[vrtKey("TxKey")] = func(e *Exec, fn *ssa.Function, a []Value) Value {
		return mkByteSlice(mkToken(33, 0x02, 0xEC, e.concreteInt(a[1], "signer")))
	}
	I[vrtKey("TxSig")] = func(e *Exec, fn *ssa.Function, a []Value) Value {
		id := len(e.sigRecs)
		e.sigRecs = append(e.sigRecs, sigRec{kind: "ecdsa", key: e.concreteInt(a[1], "signer"), msg: append([]*Term{}, sliceTerms(a[2])...)})
		return mkByteSlice(mkToken(64, 0xA8, 0x53, id))
	}
	I[goatCrypto+".Verify"] = func(e *Exec, fn *ssa.Function, a []Value) Value {
		e.CallLog = append(e.CallLog, "bls.Verify")
		ki, ok := tokenIndex(sliceTerms(a[0]), 96, 0xB5, 0x4B)
		si, ok2 := tokenIndex(sliceTerms(a[2]), 48, 0xA7, 0x52)
		if !ok || !ok2 || si >= len(e.sigRecs) || e.sigRecs[si].kind != "bls" || e.sigRecs[si].key != ki {
			return tFalse
		}
		return bytesEq(sliceTerms(a[1]), e.sigRecs[si].msg)
	}
	I["github.com/ethereum/go-ethereum/crypto.VerifySignature"] = func(e *Exec, fn *ssa.Function, a []Value) Value {
		e.CallLog = append(e.CallLog, "ecdsa.VerifySignature")
		ki, ok := tokenIndex(sliceTerms(a[0]), 33, 0x02, 0xEC)
		si, ok2 := tokenIndex(sliceTerms(a[2]), 64, 0xA8, 0x53)
		if !ok || !ok2 || si >= len(e.sigRecs) || e.sigRecs[si].kind != "ecdsa" || e.sigRecs[si].key != ki {
			return tFalse
		}
		return bytesEq(sliceTerms(a[1]), e.sigRecs[si].msg)
	}
	// cosmos-sdk / cometbft secp256k1 public key address = RIPEMD160(SHA256(33-byte key))
	pkAddr := func(e *Exec, fn *ssa.Function, a []Value) Value {
		p := a[0].(PtrV)
		if p.IsNil() {
			panic(&GoPanic{Msg: "nil secp256k1.PubKey"})
		}
		st := e.peek(p).(*StructV)
		key := sliceTerms(st.F[0])
		if len(key) != 33 {
			panic(&GoPanic{Msg: "length of pubkey is incorrect"})
		}
		return mkByteSlice(e.hashUF("hash160", key, 20))
	}
	I["(*github.com/cosmos/cosmos-sdk/crypto/keys/secp256k1.PubKey).Address"] = pkAddr
	I[vrtKey("BLSKey")] = func(e *Exec, fn *ssa.Function, a []Value) Value {
		return mkByteSlice(keyToken(e.concreteInt(a[1], "BLSKey index")))
	}
	I[vrtKey("AggSig")] = func(e *Exec, fn *ssa.Function, a []Value) Value {
		ms := a[1].(SliceV)
		en := sigEntry{msg: append([]*Term{}, sliceTerms(a[2])...)}
		for i := 0; i < ms.Len; i++ {
			en.mask = append(en.mask, ms.A.E[ms.Off+i].(*Term))
		}
		id := len(e.sigs)
		e.sigs = append(e.sigs, en)
		out := make([]*Term, 48)
		for j := range out {
			out[j] = BVU(8, 0)
		}
		out[0], out[1], out[2], out[3] = BVU(8, 0xA6), BVU(8, 0x51), BVU(8, uint64(id&0xff)), BVU(8, uint64(id>>8))
		return mkByteSlice(out)
	}
	I[goatCrypto+".AggregateVerify"] = func(e *Exec, fn *ssa.Function, a []Value) Value {
		pks := sliceOfSlices(a[0])
		msg := sliceTerms(a[1])
		sig := sliceTerms(a[2])
		e.CallLog = append(e.CallLog, "AggregateVerify")
		if len(pks) == 0 {
			return tFalse
		}
		id, ok := tokenIndex(sig, 48, 0xA6, 0x51)
		if !ok || id >= len(e.sigs) {
			return tFalse // arbitrary bytes never verify (unforgeability)
		}
		en := e.sigs[id]
		counts := make([]int, len(en.mask))
		for _, pk := range pks {
			i, ok := tokenIndex(pk, 96, 0xB5, 0x4B)
			if !ok || i >= len(counts) {
				return tFalse
			}
			counts[i]++
		}
		conds := []*Term{bytesEq(msg, en.msg)}
		for i, c := range counts {
			switch {
			case c > 1:
				return tFalse
			case c == 1:
				conds = append(conds, en.mask[i])
			default:
				conds = append(conds, Not(en.mask[i]))
			}
		}
		return And(conds...)
	}
}
