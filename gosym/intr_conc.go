package main

// golang.org/x/sync/errgroup: tasks are run one after the other (any interleaving of two
// tasks that do not communicate gives the same results unless they race); memory accesses of
// each task are recorded and Wait reports a data race when two tasks touch overlapping
// memory and one of them writes.

import (
	"golang.org/x/tools/go/ssa"
)

type errGroup struct {
	tasks []Value
}

func (e *Exec) groupOf(v Value) *errGroup {
	p := v.(PtrV)
	if oo, ok := p.Opq.(*OpaqueObj); ok {
		return oo.Data.(*errGroup)
	}
	if p.C == nil {
		panic(&GoPanic{Msg: "nil *errgroup.Group"})
	}
	if e.groups == nil {
		e.groups = map[*Cell]*errGroup{}
	}
	g, ok := e.groups[p.C]
	if !ok {
		g = &errGroup{}
		e.groups[p.C] = g
	}
	return g
}

func init() {
	I := intrinsics
	const EG = "golang.org/x/sync/errgroup"
	I[EG+".WithContext"] = func(e *Exec, fn *ssa.Function, a []Value) Value {
		return TupleV{V: []Value{PtrV{Opq: &OpaqueObj{Kind: "errgroup", Data: &errGroup{}}}, a[0]}}
	}
	I["(*"+EG+".Group).Go"] = func(e *Exec, fn *ssa.Function, a []Value) Value {
		g := e.groupOf(a[0])
		g.tasks = append(g.tasks, a[1])
		return nil
	}
	I["(*"+EG+".Group).Wait"] = func(e *Exec, fn *ssa.Function, a []Value) Value {
		g := e.groupOf(a[0])
		var first Value = IfaceV{}
		saved := e.accesses
		e.accesses = nil
		for i, t := range g.tasks {
			e.task = i + 1
			res := e.callValue(t, nil, nil).(IfaceV)
			e.task = 0
			if res.T != nil && first.(IfaceV).T == nil {
				first = res
			}
		}
		if r := e.findRace(); r != "" && e.raceInfo == "" {
			e.raceInfo = r
		}
		e.accesses = saved
		g.tasks = nil
		return first
	}
	I[vrtKey("NoRace")] = func(e *Exec, fn *ssa.Function, a []Value) Value {
		label := e.concreteStr(a[1], "label")
		if e.raceInfo != "" {
			e.reportViolation("race", label, e.raceInfo)
			e.raceInfo = ""
		} else {
			e.H.mu.Lock()
			e.H.AssertsTrivial[label]++
			e.H.mu.Unlock()
		}
		return nil
	}
}
