package main

import (
	"crypto/sha256"
	"fmt"
	"go/types"
	"math"
	"math/big"
	"strings"

	"golang.org/x/crypto/ripemd160"
	"golang.org/x/tools/go/ssa"
)

var concreteHashes = map[string]func([]byte) []byte{
	"sha256": func(b []byte) []byte { h := sha256.Sum256(b); return h[:] },
	"dsha256": func(b []byte) []byte {
		h := sha256.Sum256(b)
		h2 := sha256.Sum256(h[:])
		return h2[:]
	},
	"hash160": func(b []byte) []byte {
		h := sha256.Sum256(b)
		r := ripemd160.New()
		r.Write(h[:])
		return r.Sum(nil)
	},
}

const goatCrypto = repoMod + "/pkg/crypto"

func init() {
	I := intrinsics
	I[goatCrypto+".SHA256Sum"] = func(e *Exec, fn *ssa.Function, a []Value) Value {
		var all []*Term
		for _, part := range sliceOfSlices(a[0]) {
			all = append(all, part...)
		}
		return mkByteSlice(e.hashUF("sha256", all, 32))
	}
	I[goatCrypto+".DoubleSHA256Sum"] = func(e *Exec, fn *ssa.Function, a []Value) Value {
		return mkByteSlice(e.hashUF("dsha256", sliceTerms(a[0]), 32))
	}
	I[goatCrypto+".Hash160Sum"] = func(e *Exec, fn *ssa.Function, a []Value) Value {
		return mkByteSlice(e.hashUF("hash160", sliceTerms(a[0]), 20))
	}
	I["crypto/sha256.Sum256"] = func(e *Exec, fn *ssa.Function, a []Value) Value {
		out := e.hashUF("sha256", sliceTerms(a[0]), 32)
		arr := &ArrObj{E: make([]Value, 32)}
		for i, b := range out {
			arr.E[i] = b
		}
		return ArrayV{A: arr}
	}
	I["github.com/btcsuite/btcd/btcutil.Hash160"] = I[goatCrypto+".Hash160Sum"]

	// ----- errors / fmt -----
	I["errors.New"] = func(e *Exec, fn *ssa.Function, a []Value) Value {
		return errVal(&ErrObj{Msg: strOrSym(a[0])})
	}
	I["fmt.Errorf"] = func(e *Exec, fn *ssa.Function, a []Value) Value {
		eo := &ErrObj{Msg: strOrSym(a[0])}
		// %w wrapping: keep every error argument as wrapped
		if args, ok := a[1].(SliceV); ok {
			for i := 0; i < args.Len; i++ {
				if w := asErrObj(args.A.E[args.Off+i]); w != nil {
					if iv, ok := args.A.E[args.Off+i].(IfaceV); ok {
						if _, isE := iv.V.(*ErrObj); isE {
							eo.Wraps = append(eo.Wraps, w)
						}
					}
				}
			}
		}
		return errVal(eo)
	}
	I["fmt.Sprintf"] = func(e *Exec, fn *ssa.Function, a []Value) Value {
		return StrV{S: e.sprintf(strOrSym(a[0]), a[1])}
	}
	I["fmt.Sprint"] = func(e *Exec, fn *ssa.Function, a []Value) Value {
		return StrV{S: e.sprintf("", a[0])}
	}
	I["cosmossdk.io/errors.Wrap"] = func(e *Exec, fn *ssa.Function, a []Value) Value {
		w := asErrObj(a[0])
		if w == nil {
			return IfaceV{}
		}
		return errVal(&ErrObj{Msg: strOrSym(a[1]) + ": " + w.Msg, Wraps: []*ErrObj{w}})
	}
	I["cosmossdk.io/errors.Wrapf"] = func(e *Exec, fn *ssa.Function, a []Value) Value {
		w := asErrObj(a[0])
		if w == nil {
			return IfaceV{}
		}
		return errVal(&ErrObj{Msg: strOrSym(a[1]) + ": " + w.Msg, Wraps: []*ErrObj{w}})
	}
	I["(*cosmossdk.io/errors.Error).Wrap"] = func(e *Exec, fn *ssa.Function, a []Value) Value {
		w := asErrObj(a[0])
		return errVal(&ErrObj{Msg: strOrSym(a[1]) + ": " + w.Msg, Wraps: []*ErrObj{w}})
	}
	I["(*cosmossdk.io/errors.Error).Wrapf"] = I["(*cosmossdk.io/errors.Error).Wrap"]
	I["(*cosmossdk.io/errors.Error).Error"] = func(e *Exec, fn *ssa.Function, a []Value) Value {
		return StrV{S: asErrObj(a[0]).Msg}
	}
	I["cosmossdk.io/errors.Register"] = func(e *Exec, fn *ssa.Function, a []Value) Value {
		return PtrV{Opq: &ErrObj{Msg: strOrSym(a[2])}}
	}
	I["errors.Is"] = func(e *Exec, fn *ssa.Function, a []Value) Value {
		x, y := asErrObj(a[0]), asErrObj(a[1])
		if x == nil || y == nil {
			return BoolC(x == nil && y == nil)
		}
		return BoolC(errIs(x, y))
	}
	I["errors.Join"] = func(e *Exec, fn *ssa.Function, a []Value) Value {
		s := a[0].(SliceV)
		eo := &ErrObj{Msg: "joined"}
		for i := 0; i < s.Len; i++ {
			if w := asErrObj(s.A.E[s.Off+i]); w != nil {
				eo.Wraps = append(eo.Wraps, w)
			}
		}
		if len(eo.Wraps) == 0 {
			return IfaceV{}
		}
		return errVal(eo)
	}
	I["google.golang.org/grpc/status.Error"] = func(e *Exec, fn *ssa.Function, a []Value) Value {
		return errVal(&ErrObj{Msg: "grpc status: " + strOrSym(a[1])})
	}
	I["google.golang.org/grpc/status.Errorf"] = I["google.golang.org/grpc/status.Error"]

	// ----- math -----
	I["math.Ceil"] = func(e *Exec, fn *ssa.Function, a []Value) Value {
		f := a[0].(FloatV)
		if f.Sym == nil {
			return FloatV{F: math.Ceil(f.F)}
		}
		// ceil(x) = -floor(-x) ; to_int is floor in SMT-LIB
		neg := mk("-", RealSort, f.Sym)
		fl := mk("to_int", IntSort, neg)
		return FloatV{Sym: ToReal(INeg(fl))}
	}
	I["math.Floor"] = func(e *Exec, fn *ssa.Function, a []Value) Value {
		f := a[0].(FloatV)
		if f.Sym == nil {
			return FloatV{F: math.Floor(f.F)}
		}
		return FloatV{Sym: ToReal(mk("to_int", IntSort, f.Sym))}
	}
	I["math/bits.OnesCount64"] = func(e *Exec, fn *ssa.Function, a []Value) Value {
		return ZExt(64, popcount(a[0].(*Term)))
	}
	I["math/bits.TrailingZeros64"] = func(e *Exec, fn *ssa.Function, a []Value) Value {
		x := a[0].(*Term)
		res := BVU(64, 64)
		for i := 63; i >= 0; i-- {
			res = Ite(Eq(Extract(i, i, x), BVU(1, 1)), BVU(64, uint64(i)), res)
		}
		return res
	}

	lz := func(w int) Intrinsic {
		return func(e *Exec, fn *ssa.Function, a []Value) Value {
			x := a[0].(*Term)
			res := BVU(64, uint64(w))
			for i := 0; i < w; i++ { // highest set bit wins: apply from low to high
				res = Ite(Eq(Extract(i, i, x), BVU(1, 1)), BVU(64, uint64(w-1-i)), res)
			}
			return res
		}
	}
	I["math/bits.LeadingZeros64"] = lz(64)
	I["math/bits.LeadingZeros32"] = lz(32)
	I["math/bits.LeadingZeros8"] = lz(8)
	blen := func(w int) Intrinsic {
		return func(e *Exec, fn *ssa.Function, a []Value) Value {
			return BVSub(BVU(64, uint64(w)), lz(w)(e, fn, a).(*Term))
		}
	}
	I["math/bits.Len64"] = blen(64)
	I["math/bits.Len32"] = blen(32)
	I["math/bits.Len"] = blen(64)
	I["math/bits.OnesCount32"] = func(e *Exec, fn *ssa.Function, a []Value) Value { return ZExt(64, popcount(a[0].(*Term))) }
	I["math/bits.OnesCount"] = func(e *Exec, fn *ssa.Function, a []Value) Value { return ZExt(64, popcount(a[0].(*Term))) }
	I["math/bits.TrailingZeros32"] = func(e *Exec, fn *ssa.Function, a []Value) Value {
		x := a[0].(*Term)
		res := BVU(64, 32)
		for i := 31; i >= 0; i-- {
			res = Ite(Eq(Extract(i, i, x), BVU(1, 1)), BVU(64, uint64(i)), res)
		}
		return res
	}

	// ----- bitmap (unsafe casts / assembly in the library) -----
	I["github.com/kelindar/bitmap.FromBytes"] = func(e *Exec, fn *ssa.Function, a []Value) Value {
		bs := sliceTerms(a[0])
		if len(bs) == 0 {
			return SliceV{}
		}
		if len(bs)%8 != 0 {
			panic(&GoPanic{Msg: "bitmap: buffer length expected to be multiple of 8"})
		}
		n := len(bs) / 8
		arr := &ArrObj{E: make([]Value, n)}
		for w := 0; w < n; w++ {
			// little endian word
			parts := make([]*Term, 8)
			for j := 0; j < 8; j++ {
				parts[j] = bs[w*8+7-j]
			}
			arr.E[w] = Concat(parts...)
		}
		return SliceV{A: arr, Len: n, Cap: n}
	}
	I["(github.com/kelindar/bitmap.Bitmap).Count"] = func(e *Exec, fn *ssa.Function, a []Value) Value {
		s := a[0].(SliceV)
		sum := BVU(64, 0)
		for i := 0; i < s.Len; i++ {
			sum = BVAdd(sum, ZExt(64, popcount(s.A.E[s.Off+i].(*Term))))
		}
		return sum
	}

	// ----- bytes / strings helpers with assembly leaves -----
	I["bytes.Equal"] = func(e *Exec, fn *ssa.Function, a []Value) Value {
		return bytesEq(sliceTerms(a[0]), sliceTerms(a[1]))
	}
	I["bytes.Compare"] = func(e *Exec, fn *ssa.Function, a []Value) Value {
		x, y := sliceTerms(a[0]), sliceTerms(a[1])
		lt := bytesLess(x, y)
		eq := bytesEq(x, y)
		return Ite(lt, BVI(64, -1), Ite(eq, BVI(64, 0), BVI(64, 1)))
	}
	I["strings.HasPrefix"] = func(e *Exec, fn *ssa.Function, a []Value) Value {
		s, p := a[0].(StrV), a[1].(StrV)
		if s.Len() < p.Len() {
			return tFalse
		}
		return bytesEq(s.Bytes()[:p.Len()], p.Bytes())
	}
	I["strings.HasSuffix"] = func(e *Exec, fn *ssa.Function, a []Value) Value {
		s, p := a[0].(StrV), a[1].(StrV)
		if s.Len() < p.Len() {
			return tFalse
		}
		return bytesEq(s.Bytes()[s.Len()-p.Len():], p.Bytes())
	}
	I["bytes.HasPrefix"] = func(e *Exec, fn *ssa.Function, a []Value) Value {
		s, p := sliceTerms(a[0]), sliceTerms(a[1])
		if len(s) < len(p) {
			return tFalse
		}
		return bytesEq(s[:len(p)], p)
	}
	I["encoding/hex.EncodeToString"] = func(e *Exec, fn *ssa.Function, a []Value) Value {
		bs := sliceTerms(a[0])
		const digits = "0123456789abcdef"
		out := make([]*Term, 0, 2*len(bs))
		for _, b := range bs {
			if b.IsConst() {
				out = append(out, BVU(8, uint64(digits[b.U64()>>4])), BVU(8, uint64(digits[b.U64()&15])))
				continue
			}
			out = append(out, hexDigit(Extract(7, 4, b)), hexDigit(Extract(3, 0, b)))
		}
		return StrFromBytes(out)
	}
	I["sync.(*Pool).Get"] = nil
	delete(I, "sync.(*Pool).Get")
	for _, k := range []string{"(*sync.Mutex).Lock", "(*sync.Mutex).Unlock", "(*sync.RWMutex).Lock", "(*sync.RWMutex).Unlock", "(*sync.RWMutex).RLock", "(*sync.RWMutex).RUnlock"} {
		I[k] = func(e *Exec, fn *ssa.Function, a []Value) Value { return nil }
	}
}

func hexDigit(n *Term) *Term {
	n8 := ZExt(8, n)
	return Ite(BVUlt(n8, BVU(8, 10)), BVAdd(n8, BVU(8, '0')), BVAdd(n8, BVU(8, 'a'-10)))
}

func popcount(x *Term) *Term {
	w := x.S.W
	if x.IsConst() {
		n := 0
		for i := 0; i < w; i++ {
			if x.C.Bit(i) == 1 {
				n++
			}
		}
		return BVU(8, uint64(n))
	}
	sum := BVU(8, 0)
	for i := 0; i < w; i++ {
		sum = BVAdd(sum, ZExt(8, Extract(i, i, x)))
	}
	return sum
}

func strOrSym(v Value) string {
	if s, ok := v.(StrV); ok {
		if s.IsConcrete() {
			return s.S
		}
		return "<symbolic string>"
	}
	return fmt.Sprintf("<%T>", v)
}

// sprintf: concrete formatting for harness/diagnostic strings; symbolic operands print as "?"
func (e *Exec) sprintf(format string, argv Value) string {
	var args []interface{}
	if s, ok := argv.(SliceV); ok {
		for i := 0; i < s.Len; i++ {
			args = append(args, e.fmtArg(s.A.E[s.Off+i]))
		}
	}
	if format == "" {
		return fmt.Sprint(args...)
	}
	return fmt.Sprintf(format, args...)
}

func (e *Exec) fmtArg(v Value) interface{} {
	switch x := v.(type) {
	case IfaceV:
		if x.T == nil {
			return nil
		}
		if t, ok := x.V.(*Term); ok && t.IsConst() && t.S.K == SBV {
			if isSigned(x.T) {
				return t.SVal()
			}
			return new(big.Int).Set(t.C)
		}
		return e.fmtArg(x.V)
	case *Term:
		if x.IsConst() {
			if x.S.K == SBool {
				return x.B
			}
			return new(big.Int).Set(x.C)
		}
		return "?"
	case StrV:
		if x.IsConcrete() {
			return x.S
		}
		return "?"
	case *ErrObj:
		return x.Msg
	case SliceV:
		if x.Len > 0 {
			if _, ok := x.A.E[x.Off].(*Term); ok {
				if raw, ok := concreteBytes(sliceTerms(x)); ok {
					return raw
				}
			}
		}
		return "?"
	case BigV:
		if x.T.IsConst() {
			return x.T.C
		}
		return "?"
	}
	return "?"
}

var _ = strings.Contains
var _ = types.Identical
