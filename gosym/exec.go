package main

import (
	"fmt"
	"go/constant"
	"go/token"
	"go/types"
	"math"
	"math/big"
	"os"
	"strings"

	"golang.org/x/tools/go/ssa"
)

// ---------- control-flow exceptions ----------

// GoPanic is a panic of the interpreted program.
type GoPanic struct {
	Val Value
	Msg string
}

// pathAbort ends the current path for an engine-level reason.
type pathAbort struct {
	Kind string // UNSUPPORTED, UNWIND, INFEASIBLE, ENGINE, STOP
	Msg  string
}

func abortf(format string, a ...interface{}) *pathAbort {
	msg := fmt.Sprintf(format, a...)
	kind := "ENGINE"
	for _, k := range []string{"UNSUPPORTED", "UNWIND", "INFEASIBLE", "ENGINE", "STOP", "SOLVER"} {
		if strings.HasPrefix(msg, k) {
			kind = k
			msg = strings.TrimSpace(strings.TrimPrefix(msg, k))
			break
		}
	}
	return &pathAbort{Kind: kind, Msg: msg}
}

// ---------- exec ----------

type Frame struct {
	Fn        *ssa.Function
	Env       map[ssa.Value]Value
	Defers    []deferred
	Visits    map[*ssa.BasicBlock]int
	Panic     *GoPanic // panic being propagated while running defers
	Recovered bool
}

type deferred struct {
	fn   Value
	args []Value
	call *ssa.CallCommon
}

type Decision struct {
	N      int // number of alternatives
	Choice int
	Forced bool
}

type Exec struct {
	L       *Loaded
	Solver  *Solver
	Cfg     *RunConfig
	globals map[*ssa.Global]*Cell

	prefix  []int   // decisions to replay
	trail   []int   // decisions taken on this path
	rangeLo map[*Term]bool // integer terms asserted >= 0 on this path
	rangeHi map[*Term]int  // integer terms asserted < 2^k on this path
	pending [][]int // alternative prefixes discovered on this path

	Inputs    []*Term // declared symbolic inputs
	InputMeta map[string]InputMeta
	fresh     int
	depth     int
	frames    []*Frame

	H         *HarnessRun
	Steps     int64
	Branches  int64
	StoreOps  int64
	lenient   bool // init mode: unknown calls return zero values
	IntMode   bool
	CallLog   []string
	Funcs     map[string]bool // functions (with bodies) executed
	cellID    int
	initDone  map[*ssa.Package]bool
	ghost     map[string]Value
	notes     []noteRec
	lastPanic string
	hashApps  map[string][]hashApp
	init      *InitState
	initMode  bool
	cl        *cloner
	SS        *StoreState
	EnvNondet []string
	sigs      []sigEntry
	sigRecs   []sigRec
	txs       map[*ArrObj]*absTx
	addrs     []*btcAddr
	LenientCalls map[string]int
	regions   map[string]*Term
	task      int // >0 while executing an errgroup task (race tracking)
	accesses  []memAccess
	raceInfo  string
	lastNow   *Term
	groups    map[*Cell]*errGroup
	DepGlobals map[string]bool // dependency package variables read with a defaulted (zero/opaque) value
}

func newExec(L *Loaded, init *InitState, cfg *RunConfig, solver *Solver) *Exec {
	return &Exec{L: L, Solver: solver, Cfg: cfg, globals: map[*ssa.Global]*Cell{}, InputMeta: map[string]InputMeta{}, init: init, rangeLo: map[*Term]bool{}, rangeHi: map[*Term]int{}}
}

type hashApp struct {
	in  []*Term
	out *Term
}

type InputMeta struct {
	Kind string // u64,u32,u8,bool,bytes,int,bigint,choose
	N    int
}

func (e *Exec) newCell(v Value) *Cell {
	e.cellID++
	return &Cell{V: v, id: e.cellID}
}

// branch decides a symbolic condition, forking via the decision trail.
func (e *Exec) branch(c *Term) bool {
	if c.IsConst() {
		return c.B
	}
	e.Branches++
	pos := len(e.trail)
	if pos < len(e.prefix) {
		d := e.prefix[pos] == 1
		e.trail = append(e.trail, e.prefix[pos])
		if d {
			e.Solver.Assert(c)
			e.noteRange(c)
		} else {
			e.Solver.Assert(Not(c))
			e.noteRange(Not(c))
		}
		return d
	}
	if len(e.trail) > e.Cfg.MaxDecisions {
		panic(abortf("UNWIND decision bound %d exceeded", e.Cfg.MaxDecisions))
	}
	rt := e.Solver.CheckWith(c)
	if rt == RError {
		panic(abortf("SOLVER error during feasibility check"))
	}
	var rf Result
	if rt == RUnsat {
		rf = RSat // path condition is satisfiable by construction
	} else {
		rf = e.Solver.CheckWith(Not(c))
		if rf == RError {
			panic(abortf("SOLVER error during feasibility check"))
		}
	}
	tOK := rt != RUnsat
	fOK := rf != RUnsat
	if rt == RUnknown || rf == RUnknown {
		e.H.UnknownFeas++
	}
	switch {
	case tOK && fOK:
		alt := append(append([]int{}, e.trail...), 0)
		e.pending = append(e.pending, alt)
		e.trail = append(e.trail, 1)
		e.Solver.Assert(c)
		e.noteRange(c)
		return true
	case tOK:
		e.trail = append(e.trail, 1)
		e.Solver.Assert(c)
		e.noteRange(c)
		return true
	case fOK:
		e.trail = append(e.trail, 0)
		e.Solver.Assert(Not(c))
		e.noteRange(Not(c))
		return false
	}
	panic(abortf("INFEASIBLE both branches infeasible"))
}

// noteRange records, from a condition just asserted on this path, which integer terms are
// now known to lie in [0, 2^k): later conversions of such a term to a k-bit word keep their
// arithmetic and comparisons in the integer theory (see knownNat / intBacked).
func (e *Exec) noteRange(c *Term) {
	var conj []*Term
	if c.Op == "and" {
		conj = c.Args
	} else {
		conj = []*Term{c}
	}
	for _, a := range conj {
		op := a.Op
		if op == "not" && len(a.Args) == 1 { // not(x < c) = x >= c, ...
			if neg, ok := map[string]string{"<": ">=", ">=": "<", ">": "<=", "<=": ">"}[a.Args[0].Op]; ok {
				a = &Term{Op: neg, S: BoolSort, Args: a.Args[0].Args}
			}
		}
		if len(a.Args) != 2 || a.Args[0].S.K != SInt {
			continue
		}
		x, y := a.Args[0], a.Args[1]
		switch {
		case a.Op == ">" && y.IsConst() && y.C.Sign() >= 0: // x > c, c >= 0
			e.rangeLo[x] = true
		case a.Op == ">=" && y.IsConst() && y.C.Sign() >= 0: // x >= c, c >= 0
			e.rangeLo[x] = true
		case a.Op == "<=" && x.IsConst() && x.C.Sign() >= 0: // c <= y
			e.rangeLo[y] = true
		case a.Op == "<" && y.IsConst() && y.C.Sign() > 0: // x < c
			if k := new(big.Int).Sub(y.C, bigOne).BitLen(); e.rangeHi[x] == 0 || k < e.rangeHi[x] {
				e.rangeHi[x] = max(k, 1)
			}
		case a.Op == "<=" && y.IsConst() && y.C.Sign() >= 0: // x <= c
			if k := y.C.BitLen(); e.rangeHi[x] == 0 || k < e.rangeHi[x] {
				e.rangeHi[x] = max(k, 1)
			}
		}
	}
}

// knownNat returns t, or a copy of it flagged as lying in [0, 2^k) when the path condition
// asserted so far says it does (k <= w). Per-harness switch (range_facts in props.json): it
// decides the multiply/divide chains of the locking power formula in milliseconds where the
// mixed encoding is undecided after minutes, but makes the signed 64-bit checks on reported
// validator powers harder, so it is only enabled where it was measured to help.
func (e *Exec) knownNat(w int, t *Term) *Term {
	if t.IsConst() || natW(t) > 0 || !e.Cfg.RangeFacts {
		return t
	}
	if k := e.rangeHi[t]; e.rangeLo[t] && k > 0 && k <= w {
		tt := *t
		tt.NatW = k
		return &tt
	}
	return t
}

// choose forks over n alternatives without consulting the solver.
func (e *Exec) choose(n int) int {
	if n <= 0 {
		panic(abortf("INFEASIBLE empty choice"))
	}
	if n == 1 {
		return 0
	}
	pos := len(e.trail)
	if pos < len(e.prefix) {
		d := e.prefix[pos]
		e.trail = append(e.trail, d)
		return d
	}
	for i := n - 1; i >= 1; i-- {
		alt := append(append([]int{}, e.trail...), i)
		e.pending = append(e.pending, alt)
	}
	e.trail = append(e.trail, 0)
	return 0
}

func (e *Exec) assume(c *Term) {
	if c.IsConst() {
		if !c.B {
			panic(abortf("INFEASIBLE assume(false)"))
		}
		return
	}
	e.Solver.Assert(c)
	e.noteRange(c)
}

func (e *Exec) freshVar(prefix string, s Sort) *Term {
	e.fresh++
	return Var(fmt.Sprintf("%s!%d", prefix, e.fresh), s)
}

type memAccess struct {
	task  int
	cell  *Cell
	arr   *ArrObj
	idx   int
	path  []int
	write bool
	pos   token.Pos
}

func (e *Exec) recordAccess(p PtrV, write bool, pos token.Pos) {
	if e.task == 0 || p.Opq != nil || p.IsNil() {
		return
	}
	e.accesses = append(e.accesses, memAccess{task: e.task, cell: p.C, arr: p.Arr, idx: p.Idx, path: p.Path, write: write, pos: pos})
}

func pathOverlap(a, b []int) bool {
	n := len(a)
	if len(b) < n {
		n = len(b)
	}
	for i := 0; i < n; i++ {
		if a[i] != b[i] {
			return false
		}
	}
	return true
}

// findRace: two accesses to overlapping memory from different tasks, at least one a write
func (e *Exec) findRace() string {
	for i, a := range e.accesses {
		for _, b := range e.accesses[i+1:] {
			if a.task == b.task || !(a.write || b.write) {
				continue
			}
			if a.cell != b.cell || a.arr != b.arr || a.idx != b.idx || !pathOverlap(a.path, b.path) {
				continue
			}
			if a.cell != nil && a.cell.local {
				continue
			}
			w, r := a, b
			if !a.write {
				w, r = b, a
			}
			return fmt.Sprintf("write at %s (task %d) vs access at %s (task %d)", e.L.Prog.Fset.Position(w.pos), w.task, e.L.Prog.Fset.Position(r.pos), r.task)
		}
	}
	return ""
}

// ---------- globals ----------

func (e *Exec) global(g *ssa.Global) *Cell {
	if c, ok := e.globals[g]; ok {
		return c
	}
	et := g.Type().(*types.Pointer).Elem()
	if e.init != nil {
		if src, ok := e.init.Globals[g]; ok {
			if e.cl == nil {
				e.cl = newCloner()
			}
			c := e.cl.cell(src)
			e.globals[g] = c
			return c
		}
	}
	var v Value
	if g.Pkg != nil && !e.hasBodies(g.Pkg) {
		v = e.depGlobal(g, et)
	} else {
		v = e.zeroLenient(et)
	}
	c := e.newCell(v)
	c.Name = g.String()
	e.globals[g] = c
	return c
}

func (e *Exec) hasBodies(p *ssa.Package) bool {
	_, ok := e.L.Pkgs[p.Pkg.Path()]
	if !ok {
		return false
	}
	// root packages have syntax; check via init function having >1 instruction or any member with blocks
	return e.L.rootSet()[p.Pkg.Path()]
}

func (l *Loaded) rootSet() map[string]bool {
	if l.roots == nil {
		l.roots = map[string]bool{}
		for _, p := range l.Roots {
			l.roots[p.PkgPath] = true
		}
	}
	return l.roots
}

// ---------- calls ----------

func (e *Exec) callFunction(fn *ssa.Function, args []Value, binds []Value, site ssa.Instruction) Value {
	key := funcKey(fn)
	if in, ok := intrinsics[key]; ok {
		return in(e, fn, args)
	}
	if r := fn.Signature.Results(); r.Len() == 1 && namedKey(r.At(0).Type()) == sdkT+".Event" {
		return e.zeroLenient(r.At(0).Type()) // event construction is never the subject
	}
	if fn.Blocks == nil {
		if v, ok := e.tryPatternIntrinsic(fn, key, args); ok {
			return v
		}
		if e.lenient {
			if e.LenientCalls != nil {
				e.LenientCalls[key]++
			}
			return e.zeroResult(fn.Signature)
		}
		where := ""
		if site != nil {
			where = " at " + e.L.Prog.Fset.Position(site.Pos()).String()
		}
		panic(abortf("UNSUPPORTED call to body-less %s%s", key, where))
	}
	return e.runFunction(fn, args, binds)
}

func (e *Exec) zeroResult(sig *types.Signature) Value {
	r := sig.Results()
	switch r.Len() {
	case 0:
		return nil
	case 1:
		return e.zero(r.At(0).Type())
	}
	vs := make([]Value, r.Len())
	for i := range vs {
		vs[i] = e.zero(r.At(i).Type())
	}
	return TupleV{V: vs}
}

func (e *Exec) callValue(fv Value, args []Value, site ssa.Instruction) Value {
	f, ok := fv.(FuncV)
	if !ok {
		panic(abortf("ENGINE call of non-function %T", fv))
	}
	if f.Go != nil {
		return f.Go(e, args)
	}
	if f.Fn == nil {
		panic(&GoPanic{Msg: "call of nil function"})
	}
	return e.callFunction(f.Fn, args, f.Binds, site)
}

func (e *Exec) runFunction(fn *ssa.Function, args []Value, binds []Value) (ret Value) {
	if e.depth > e.Cfg.MaxDepth {
		panic(abortf("UNWIND call depth %d exceeded in %s", e.Cfg.MaxDepth, fn))
	}
	e.depth++
	defer func() { e.depth-- }()
	if e.Funcs != nil && fn.Pkg != nil {
		if _, seen := e.Funcs[fn.String()]; !seen {
			// record functions of the code under test (not harness code)
			file := e.L.Prog.Fset.Position(fn.Pos()).Filename
			e.Funcs[fn.String()] = !strings.Contains(file, "zz_verif") && !strings.Contains(file, "zzverif")
		}
	}
	fr := &Frame{Fn: fn, Env: make(map[ssa.Value]Value, 32), Visits: map[*ssa.BasicBlock]int{}}
	for i, p := range fn.Params {
		fr.Env[p] = args[i]
	}
	for i, fv := range fn.FreeVars {
		fr.Env[fv] = binds[i]
	}
	e.frames = append(e.frames, fr)
	defer func() { e.frames = e.frames[:len(e.frames)-1] }()

	// panics of the interpreted program: run deferred calls, then propagate or recover
	defer func() {
		r := recover()
		if r == nil {
			return
		}
		gp, ok := r.(*GoPanic)
		if !ok {
			panic(r)
		}
		fr.Panic = gp
		e.runDefers(fr)
		if fr.Recovered {
			// resume at recover block if any; else return zero results
			if fn.Recover != nil {
				ret = e.runBlocks(fr, fn.Recover, nil)
			} else {
				ret = e.zeroResult(fn.Signature)
			}
			return
		}
		panic(gp)
	}()
	return e.runBlocks(fr, fn.Blocks[0], nil)
}

func (e *Exec) runDefers(fr *Frame) {
	for len(fr.Defers) > 0 {
		d := fr.Defers[len(fr.Defers)-1]
		fr.Defers = fr.Defers[:len(fr.Defers)-1]
		e.invokeDeferred(d)
	}
}

func (e *Exec) invokeDeferred(d deferred) {
	if d.call != nil && d.call.IsInvoke() {
		e.invoke(d.fn, d.call.Method, d.args, nil)
		return
	}
	e.callValue(d.fn, d.args, nil)
}

func (e *Exec) get(fr *Frame, v ssa.Value) Value {
	switch x := v.(type) {
	case *ssa.Const:
		return e.constVal(x)
	case *ssa.Global:
		return PtrV{C: e.global(x)}
	case *ssa.Function:
		return FuncV{Fn: x}
	case *ssa.Builtin:
		return FuncV{Intr: "builtin:" + x.Name()}
	}
	val, ok := fr.Env[v]
	if !ok {
		panic(abortf("ENGINE no value for %s (%T) in %s", v.Name(), v, fr.Fn))
	}
	return val
}

func (e *Exec) constVal(c *ssa.Const) Value {
	t := c.Type()
	if c.Value == nil {
		return e.zero(t)
	}
	if v, ok := opaqueZero(t); ok {
		_ = v
	}
	switch u := t.Underlying().(type) {
	case *types.Basic:
		switch {
		case u.Info()&types.IsBoolean != 0:
			return BoolC(constant.BoolVal(c.Value))
		case u.Info()&types.IsInteger != 0:
			w := intWidth(u)
			bi, ok := constantToBig(c.Value)
			if !ok {
				panic(abortf("ENGINE bad int const %v", c))
			}
			return e.mkInt(w, bi)
		case u.Info()&types.IsFloat != 0:
			f, _ := constant.Float64Val(c.Value)
			return FloatV{F: f}
		case u.Info()&types.IsString != 0:
			return StrV{S: constant.StringVal(c.Value)}
		}
	}
	panic(abortf("UNSUPPORTED constant %v of type %v", c, t))
}

func constantToBig(v constant.Value) (*big.Int, bool) {
	v = constant.ToInt(v)
	if v.Kind() != constant.Int {
		return nil, false
	}
	if i, ok := constant.Int64Val(v); ok {
		return big.NewInt(i), true
	}
	bi, ok := new(big.Int).SetString(v.ExactString(), 10)
	return bi, ok
}

func (e *Exec) mkInt(w int, v *big.Int) *Term { return BVC(w, v) }

func (e *Exec) runBlocks(fr *Frame, b *ssa.BasicBlock, prev *ssa.BasicBlock) Value {
	for {
		fr.Visits[b]++
		if fr.Visits[b] > e.Cfg.MaxLoop {
			panic(abortf("UNWIND loop bound %d exceeded in %s block %d", e.Cfg.MaxLoop, fr.Fn, b.Index))
		}
		// phis first (parallel assignment)
		nphi := 0
		var phiVals []Value
		for _, in := range b.Instrs {
			phi, ok := in.(*ssa.Phi)
			if !ok {
				break
			}
			nphi++
			idx := -1
			for i, p := range b.Preds {
				if p == prev {
					idx = i
					break
				}
			}
			if idx < 0 {
				panic(abortf("ENGINE phi without matching pred in %s", fr.Fn))
			}
			phiVals = append(phiVals, e.get(fr, phi.Edges[idx]))
		}
		for i := 0; i < nphi; i++ {
			fr.Env[b.Instrs[i].(*ssa.Phi)] = phiVals[i]
		}
		var next *ssa.BasicBlock
		for _, in := range b.Instrs[nphi:] {
			e.Steps++
			switch x := in.(type) {
			case *ssa.If:
				c := e.get(fr, x.Cond).(*Term)
				if e.branch(c) {
					next = b.Succs[0]
				} else {
					next = b.Succs[1]
				}
			case *ssa.Jump:
				next = b.Succs[0]
			case *ssa.Return:
				switch len(x.Results) {
				case 0:
					return nil
				case 1:
					return copyVal(e.get(fr, x.Results[0]))
				}
				vs := make([]Value, len(x.Results))
				for i, r := range x.Results {
					vs[i] = copyVal(e.get(fr, r))
				}
				return TupleV{V: vs}
			case *ssa.Panic:
				v := e.get(fr, x.X)
				panic(&GoPanic{Val: v, Msg: "explicit panic: " + e.panicText(v) + " at " + e.L.Prog.Fset.Position(x.Pos()).String()})
			case *ssa.RunDefers:
				e.runDefers(fr)
			default:
				e.step(fr, in)
			}
		}
		if next == nil {
			panic(abortf("ENGINE block without terminator in %s", fr.Fn))
		}
		prev, b = b, next
	}
}

func (e *Exec) panicText(v Value) string {
	if iv, ok := v.(IfaceV); ok {
		if s, ok := iv.V.(StrV); ok && s.IsConcrete() {
			return s.S
		}
		if eo, ok := iv.V.(*ErrObj); ok {
			return eo.Msg
		}
		if iv.T != nil {
			return iv.T.String()
		}
	}
	return fmt.Sprintf("%T", v)
}

func (e *Exec) step(fr *Frame, in ssa.Instruction) {
	switch x := in.(type) {
	case *ssa.DebugRef:
	case *ssa.Alloc:
		c := e.newCell(e.zero(x.Type().(*types.Pointer).Elem()))
		c.local = e.task != 0 // allocated inside a task: not shared with the sibling task
		fr.Env[x] = PtrV{C: c}
	case *ssa.Store:
		p := e.get(fr, x.Addr).(PtrV)
		e.recordAccess(p, true, x.Pos())
		e.store(p, e.get(fr, x.Val))
	case *ssa.UnOp:
		fr.Env[x] = e.unop(fr, x)
	case *ssa.BinOp:
		fr.Env[x] = e.binop(x.Op, e.get(fr, x.X), e.get(fr, x.Y), x.X.Type(), x.Y.Type())
	case *ssa.Call:
		fr.Env[x] = e.doCall(fr, &x.Call, x)
	case *ssa.Defer:
		d := deferred{call: &x.Call}
		d.fn = e.get(fr, x.Call.Value)
		for _, a := range x.Call.Args {
			d.args = append(d.args, e.get(fr, a))
		}
		fr.Defers = append(fr.Defers, d)
	case *ssa.Go:
		panic(abortf("UNSUPPORTED go statement at %s", e.L.Prog.Fset.Position(x.Pos())))
	case *ssa.FieldAddr:
		p := e.get(fr, x.X).(PtrV)
		if p.IsNil() {
			panic(&GoPanic{Msg: "nil pointer dereference (field " + fieldName(x.X.Type(), x.Field) + ") at " + e.L.Prog.Fset.Position(x.Pos()).String()})
		}
		if p.Opq != nil {
			panic(abortf("UNSUPPORTED field access on opaque object %T in %s", p.Opq, fr.Fn))
		}
		fr.Env[x] = p.extend(x.Field)
	case *ssa.Field:
		s := e.get(fr, x.X)
		sv, ok := s.(*StructV)
		if !ok {
			panic(abortf("UNSUPPORTED field read on %T in %s", s, fr.Fn))
		}
		fr.Env[x] = copyVal(sv.F[x.Field])
	case *ssa.IndexAddr:
		fr.Env[x] = e.indexAddr(fr, x)
	case *ssa.Index:
		fr.Env[x] = e.index(fr, x)
	case *ssa.Slice:
		fr.Env[x] = e.slice(fr, x)
	case *ssa.MakeSlice:
		n := e.concreteInt(e.get(fr, x.Len), "make len")
		var c int
		if ct := e.get(fr, x.Cap).(*Term); ct.IsConst() {
			c = int(ct.I64())
		} else {
			// symbolic capacity: the capacity only affects aliasing after append, which Go
			// programs must not rely on; a capacity below the length panics.
			if e.branch(BVSlt(ct, BVI(64, int64(n)))) {
				panic(&GoPanic{Msg: "makeslice: cap out of range"})
			}
			c = n
		}
		if n < 0 || c < n {
			panic(&GoPanic{Msg: "makeslice: len out of range"})
		}
		if c > 1<<20 {
			panic(abortf("UNSUPPORTED make of %d elements", c))
		}
		et := x.Type().Underlying().(*types.Slice).Elem()
		a := &ArrObj{E: make([]Value, c)}
		for i := range a.E {
			a.E[i] = e.zero(et)
		}
		fr.Env[x] = SliceV{A: a, Len: n, Cap: c}
	case *ssa.MakeMap:
		fr.Env[x] = MapV{M: &MapObj{}}
	case *ssa.MapUpdate:
		m := e.get(fr, x.Map).(MapV)
		if m.M == nil {
			panic(&GoPanic{Msg: "assignment to entry in nil map"})
		}
		e.mapSet(m.M, e.get(fr, x.Key), copyVal(e.get(fr, x.Value)))
	case *ssa.Lookup:
		fr.Env[x] = e.lookup(fr, x)
	case *ssa.Range:
		fr.Env[x] = e.mkRange(e.get(fr, x.X))
	case *ssa.Next:
		fr.Env[x] = e.next(fr, x)
	case *ssa.MakeInterface:
		fr.Env[x] = IfaceV{T: x.X.Type(), V: copyVal(e.get(fr, x.X))}
	case *ssa.ChangeInterface:
		fr.Env[x] = e.get(fr, x.X)
	case *ssa.ChangeType:
		fr.Env[x] = e.get(fr, x.X)
	case *ssa.Convert:
		fr.Env[x] = e.convert(e.get(fr, x.X), x.X.Type(), x.Type())
	case *ssa.MultiConvert:
		fr.Env[x] = e.convert(e.get(fr, x.X), x.X.Type(), x.Type())
	case *ssa.TypeAssert:
		fr.Env[x] = e.typeAssert(fr, x)
	case *ssa.Extract:
		fr.Env[x] = e.get(fr, x.Tuple).(TupleV).V[x.Index]
	case *ssa.MakeClosure:
		fn := x.Fn.(*ssa.Function)
		binds := make([]Value, len(x.Bindings))
		for i, b := range x.Bindings {
			binds[i] = e.get(fr, b)
		}
		fr.Env[x] = FuncV{Fn: fn, Binds: binds}
	case *ssa.SliceToArrayPointer:
		s := e.get(fr, x.X).(SliceV)
		n := int(x.Type().(*types.Pointer).Elem().Underlying().(*types.Array).Len())
		if s.Len < n {
			panic(&GoPanic{Msg: "slice to array pointer: length too short"})
		}
		if s.A == nil {
			fr.Env[x] = PtrV{}
			break
		}
		// materialise a view: copy-free aliasing is not representable unless offset 0 and exact size
		if s.Off == 0 && len(s.A.E) == n {
			fr.Env[x] = PtrV{C: e.newCell(ArrayV{A: s.A})}
		} else {
			// a view into the middle of a backing array: modelled as a read-only copy (exact for
			// the conversion-and-copy idiom [N]T(slice)); a store through it is UNSUPPORTED
			cp := &ArrObj{E: make([]Value, n)}
			for i := 0; i < n; i++ {
				cp.E[i] = copyVal(s.A.E[s.Off+i])
			}
			c := e.newCell(ArrayV{A: cp})
			c.viewCopy = true
			fr.Env[x] = PtrV{C: c}
		}
	case *ssa.MakeChan, *ssa.Send, *ssa.Select:
		panic(abortf("UNSUPPORTED channel operation at %s", e.L.Prog.Fset.Position(in.Pos())))
	default:
		panic(abortf("UNSUPPORTED instruction %T in %s", in, fr.Fn))
	}
}

func fieldName(t types.Type, i int) string {
	if p, ok := t.Underlying().(*types.Pointer); ok {
		if s, ok := p.Elem().Underlying().(*types.Struct); ok && i < s.NumFields() {
			return s.Field(i).Name()
		}
	}
	return fmt.Sprint(i)
}

// store with in-place array assignment so that slices aliasing an array stay aliased
func (e *Exec) store(p PtrV, v Value) {
	if p.IsNil() {
		panic(&GoPanic{Msg: "nil pointer dereference (store)"})
	}
	if p.C != nil && p.C.viewCopy {
		panic(abortf("UNSUPPORTED store through a slice-to-array-pointer view"))
	}
	if av, ok := v.(ArrayV); ok && p.Opq == nil {
		cur := e.peek(p)
		if cv, ok := cur.(ArrayV); ok && len(cv.A.E) == len(av.A.E) {
			for i := range av.A.E {
				cv.A.E[i] = copyVal(av.A.E[i])
			}
			return
		}
	}
	storePtr(p, v)
}

// peek returns the value at p without copying
func (e *Exec) peek(p PtrV) Value {
	var root Value
	if p.Arr != nil {
		root = p.Arr.E[p.Idx]
	} else if p.C != nil {
		root = p.C.V
	} else {
		return p.Opq
	}
	return navigate(root, p.Path)
}

func (e *Exec) concreteInt(v Value, what string) int {
	t, ok := v.(*Term)
	if !ok {
		panic(abortf("ENGINE %s: not an int (%T)", what, v))
	}
	if !t.IsConst() {
		panic(abortf("UNSUPPORTED symbolic %s", what))
	}
	return int(t.I64())
}

// ---------- unop / binop ----------

func (e *Exec) unop(fr *Frame, x *ssa.UnOp) Value {
	v := e.get(fr, x.X)
	switch x.Op {
	case token.MUL:
		p, ok := v.(PtrV)
		if !ok {
			panic(abortf("ENGINE deref of %T", v))
		}
		if p.IsNil() {
			panic(&GoPanic{Msg: "nil pointer dereference at " + e.L.Prog.Fset.Position(x.Pos()).String()})
		}
		e.recordAccess(p, false, x.Pos())
		return loadPtr(p)
	case token.NOT:
		return Not(v.(*Term))
	case token.SUB:
		switch t := v.(type) {
		case *Term:
			return BVNeg(t)
		case FloatV:
			if t.Sym != nil {
				return FloatV{Sym: mk("-", RealSort, t.Sym)}
			}
			return FloatV{F: -t.F}
		}
	case token.XOR:
		return BVNot(v.(*Term))
	case token.ARROW:
		// the only channel the repository receives from is a timer (time.After): the wait is
		// an environment event, the received instant is irrelevant
		if ov, ok := v.(OpaqueV); ok && ov.Kind == "timerchan" {
			return e.zero(x.Type())
		}
		panic(abortf("UNSUPPORTED channel receive"))
	}
	panic(abortf("UNSUPPORTED unop %v on %T", x.Op, v))
}

func (e *Exec) binop(op token.Token, a, b Value, ta, tb types.Type) Value {
	switch x := a.(type) {
	case *Term:
		y, ok := b.(*Term)
		if !ok {
			panic(abortf("ENGINE binop term vs %T", b))
		}
		if x.S.K == SBool {
			switch op {
			case token.EQL:
				return Eq(x, y)
			case token.NEQ:
				return Not(Eq(x, y))
			case token.LAND, token.AND:
				return And(x, y)
			case token.LOR, token.OR:
				return Or(x, y)
			}
			panic(abortf("UNSUPPORTED bool binop %v", op))
		}
		return e.intBinop(op, x, y, isSigned(ta), isSigned(tb))
	case StrV:
		y := b.(StrV)
		return e.strBinop(op, x, y)
	case FloatV:
		return e.floatBinop(op, x, b.(FloatV))
	case PtrV:
		y, ok := b.(PtrV)
		if !ok {
			panic(abortf("ENGINE ptr binop with %T", b))
		}
		eq := ptrEqual(x, y)
		if op == token.EQL {
			return BoolC(eq)
		}
		return BoolC(!eq)
	case IfaceV:
		y, ok := b.(IfaceV)
		if !ok {
			panic(abortf("ENGINE iface binop with %T", b))
		}
		eq := e.ifaceEq(x, y)
		if op == token.EQL {
			return eq
		}
		return Not(eq)
	case nil:
		// nil of some type compared with value
		return e.binop(op, e.zero(ta), b, ta, tb)
	case SliceV:
		if y, ok := b.(SliceV); ok && (x.A == nil || y.A == nil) {
			eq := (x.A == nil) == (y.A == nil)
			if op == token.EQL {
				return BoolC(eq)
			}
			return BoolC(!eq)
		}
	case MapV:
		if y, ok := b.(MapV); ok && (x.M == nil || y.M == nil) {
			eq := (x.M == nil) == (y.M == nil)
			if op == token.EQL {
				return BoolC(eq)
			}
			return BoolC(!eq)
		}
	case FuncV:
		if y, ok := b.(FuncV); ok {
			xn := x.Fn == nil && x.Go == nil && x.Intr == ""
			yn := y.Fn == nil && y.Go == nil && y.Intr == ""
			if xn || yn {
				if op == token.EQL {
					return BoolC(xn == yn)
				}
				return BoolC(xn != yn)
			}
		}
	}
	// generic comparable
	if op == token.EQL || op == token.NEQ {
		eq := e.valEq(a, b)
		if op == token.EQL {
			return eq
		}
		return Not(eq)
	}
	panic(abortf("UNSUPPORTED binop %v on %T", op, a))
}

func (e *Exec) intBinop(op token.Token, x, y *Term, sx, sy bool) Value {
	switch op {
	case token.SHL, token.SHR:
		w := x.S.W
		// normalise shift count to width w
		var cnt *Term
		var big_ *Term // condition: count >= w
		if y.IsConst() {
			if sy && y.SVal().Sign() < 0 {
				panic(&GoPanic{Msg: "negative shift amount"})
			}
			if y.C.Cmp(big.NewInt(int64(w))) >= 0 {
				big_ = tTrue
				cnt = BVU(w, 0)
			} else {
				big_ = tFalse
				cnt = BVU(w, y.C.Uint64())
			}
		} else {
			if sy {
				if e.branch(BVSlt(y, BVU(y.S.W, 0))) {
					panic(&GoPanic{Msg: "negative shift amount"})
				}
			}
			big_ = Not(BVUlt(y, BVU(y.S.W, uint64(w))))
			if y.S.W < 8 && w >= 1<<uint(y.S.W) {
				big_ = tFalse
			}
			cnt = ZExt(w, y)
			if y.S.W > w {
				cnt = Extract(w-1, 0, y)
			}
		}
		var sh, over *Term
		if op == token.SHL {
			sh = BVShl(x, cnt)
			over = BVU(w, 0)
		} else if sx {
			sh = BVAshr(x, cnt)
			over = BVAshr(x, BVU(w, uint64(w-1)))
		} else {
			sh = BVLshr(x, cnt)
			over = BVU(w, 0)
		}
		return Ite(big_, over, sh)
	}
	if x.S != y.S {
		panic(abortf("ENGINE int binop width mismatch %v %v (%v)", x.S, y.S, op))
	}
	w := x.S.W
	switch op {
	case token.ADD:
		return BVAdd(x, y)
	case token.SUB:
		return BVSub(x, y)
	case token.MUL:
		return BVMul(x, y)
	case token.QUO, token.REM:
		if e.branch(Eq(y, BVU(w, 0))) {
			panic(&GoPanic{Msg: "integer divide by zero"})
		}
		if sx {
			if op == token.QUO {
				return BVSDiv(x, y)
			}
			return BVSRem(x, y)
		}
		if op == token.QUO {
			return BVUDiv(x, y)
		}
		return BVURem(x, y)
	case token.AND:
		return BVAnd(x, y)
	case token.OR:
		return BVOr(x, y)
	case token.XOR:
		return BVXor(x, y)
	case token.AND_NOT:
		return BVAnd(x, BVNot(y))
	case token.EQL:
		return Eq(x, y)
	case token.NEQ:
		return Not(Eq(x, y))
	case token.LSS:
		if sx {
			return BVSlt(x, y)
		}
		return BVUlt(x, y)
	case token.LEQ:
		if sx {
			return BVSle(x, y)
		}
		return BVUle(x, y)
	case token.GTR:
		if sx {
			return BVSlt(y, x)
		}
		return BVUlt(y, x)
	case token.GEQ:
		if sx {
			return BVSle(y, x)
		}
		return BVUle(y, x)
	}
	panic(abortf("UNSUPPORTED int binop %v", op))
}

func (e *Exec) strEq(x, y StrV) *Term {
	if x.Len() != y.Len() {
		return tFalse
	}
	if x.IsConcrete() && y.IsConcrete() {
		return BoolC(x.S == y.S)
	}
	xb, yb := x.Bytes(), y.Bytes()
	cs := make([]*Term, len(xb))
	for i := range xb {
		cs[i] = Eq(xb[i], yb[i])
	}
	return And(cs...)
}

func (e *Exec) strBinop(op token.Token, x, y StrV) Value {
	switch op {
	case token.EQL:
		return e.strEq(x, y)
	case token.NEQ:
		return Not(e.strEq(x, y))
	case token.ADD:
		if x.IsConcrete() && y.IsConcrete() {
			return StrV{S: x.S + y.S}
		}
		return StrFromBytes(append(append([]*Term{}, x.Bytes()...), y.Bytes()...))
	case token.LSS, token.LEQ, token.GTR, token.GEQ:
		if x.IsConcrete() && y.IsConcrete() {
			c := strings.Compare(x.S, y.S)
			switch op {
			case token.LSS:
				return BoolC(c < 0)
			case token.LEQ:
				return BoolC(c <= 0)
			case token.GTR:
				return BoolC(c > 0)
			default:
				return BoolC(c >= 0)
			}
		}
		lt := bytesLess(x.Bytes(), y.Bytes())
		eq := e.strEq(x, y)
		switch op {
		case token.LSS:
			return lt
		case token.LEQ:
			return Or(lt, eq)
		case token.GTR:
			return And(Not(lt), Not(eq))
		default:
			return Not(lt)
		}
	}
	panic(abortf("UNSUPPORTED string binop %v", op))
}

// lexicographic a < b over byte terms
func bytesLess(a, b []*Term) *Term {
	n := len(a)
	if len(b) < n {
		n = len(b)
	}
	// from the end: res = (len(a) < len(b)) for equal prefixes
	res := BoolC(len(a) < len(b))
	for i := n - 1; i >= 0; i-- {
		res = Or(BVUlt(a[i], b[i]), And(Eq(a[i], b[i]), res))
	}
	return res
}

func (e *Exec) floatBinop(op token.Token, x, y FloatV) Value {
	if x.Sym == nil && y.Sym == nil {
		switch op {
		case token.ADD:
			return FloatV{F: x.F + y.F}
		case token.SUB:
			return FloatV{F: x.F - y.F}
		case token.MUL:
			return FloatV{F: x.F * y.F}
		case token.QUO:
			return FloatV{F: x.F / y.F}
		case token.EQL:
			return BoolC(x.F == y.F)
		case token.NEQ:
			return BoolC(x.F != y.F)
		case token.LSS:
			return BoolC(x.F < y.F)
		case token.LEQ:
			return BoolC(x.F <= y.F)
		case token.GTR:
			return BoolC(x.F > y.F)
		case token.GEQ:
			return BoolC(x.F >= y.F)
		}
	}
	return e.symFloatBinop(op, x, y)
}

func (e *Exec) ifaceEq(x, y IfaceV) *Term {
	if x.T == nil || y.T == nil {
		return BoolC(x.T == nil && y.T == nil)
	}
	if !types.Identical(x.T, y.T) {
		return tFalse
	}
	return e.valEq(x.V, y.V)
}

func (e *Exec) valEq(a, b Value) *Term {
	switch x := a.(type) {
	case *Term:
		return Eq(x, b.(*Term))
	case StrV:
		return e.strEq(x, b.(StrV))
	case PtrV:
		return BoolC(ptrEqual(x, b.(PtrV)))
	case IfaceV:
		return e.ifaceEq(x, b.(IfaceV))
	case *StructV:
		y := b.(*StructV)
		cs := make([]*Term, len(x.F))
		for i := range x.F {
			cs[i] = e.valEq(x.F[i], y.F[i])
		}
		return And(cs...)
	case ArrayV:
		y := b.(ArrayV)
		cs := make([]*Term, len(x.A.E))
		for i := range x.A.E {
			cs[i] = e.valEq(x.A.E[i], y.A.E[i])
		}
		return And(cs...)
	case FloatV:
		return e.floatBinop(token.EQL, x, b.(FloatV)).(*Term)
	case TimeV:
		return Eq(x.T, b.(TimeV).T)
	case BigV:
		return Eq(x.T, b.(BigV).T)
	case *ErrObj:
		y, ok := b.(*ErrObj)
		return BoolC(ok && x == y)
	case OpaqueV:
		y, ok := b.(OpaqueV)
		return BoolC(ok && x.Kind == y.Kind && x.ID == y.ID)
	case *OpaqueObj:
		y, ok := b.(*OpaqueObj)
		return BoolC(ok && x == y)
	case nil:
		return BoolC(b == nil)
	}
	panic(abortf("UNSUPPORTED equality on %T", a))
}

// ---------- indexing ----------

func (e *Exec) boundsCheck(idx *Term, n int, what string, pos token.Pos) int {
	if idx.IsConst() {
		i := idx.SVal()
		if i.Sign() < 0 || i.Cmp(big.NewInt(int64(n))) >= 0 {
			panic(&GoPanic{Msg: fmt.Sprintf("index out of range [%s] with length %d (%s) at %s", i, n, what, e.L.Prog.Fset.Position(pos))})
		}
		return int(i.Int64())
	}
	// symbolic index: fork on in-bounds, then on each concrete value
	inb := BVUlt(idx, BVU(idx.S.W, uint64(n)))
	if !e.branch(inb) {
		panic(&GoPanic{Msg: fmt.Sprintf("index out of range (symbolic) with length %d (%s) at %s", n, what, e.L.Prog.Fset.Position(pos))})
	}
	for i := 0; i < n-1; i++ {
		if e.branch(Eq(idx, BVU(idx.S.W, uint64(i)))) {
			return i
		}
	}
	return n - 1
}

func (e *Exec) indexAddr(fr *Frame, x *ssa.IndexAddr) Value {
	base := e.get(fr, x.X)
	idx := e.get(fr, x.Index).(*Term)
	switch b := base.(type) {
	case SliceV:
		i := e.boundsCheck(idx, b.Len, "slice", x.Pos())
		return PtrV{Arr: b.A, Idx: b.Off + i}
	case PtrV:
		if b.IsNil() {
			panic(&GoPanic{Msg: "nil pointer dereference (array index)"})
		}
		arr, ok := e.peek(b).(ArrayV)
		if !ok {
			panic(abortf("ENGINE IndexAddr on pointer to %T", e.peek(b)))
		}
		i := e.boundsCheck(idx, len(arr.A.E), "array", x.Pos())
		return PtrV{Arr: arr.A, Idx: i}
	}
	panic(abortf("UNSUPPORTED IndexAddr on %T", base))
}

func (e *Exec) index(fr *Frame, x *ssa.Index) Value {
	base := e.get(fr, x.X)
	idx := e.get(fr, x.Index).(*Term)
	switch b := base.(type) {
	case ArrayV:
		i := e.boundsCheck(idx, len(b.A.E), "array", x.Pos())
		return copyVal(b.A.E[i])
	case StrV:
		i := e.boundsCheck(idx, b.Len(), "string", x.Pos())
		return b.Bytes()[i]
	}
	panic(abortf("UNSUPPORTED Index on %T", base))
}

func (e *Exec) slice(fr *Frame, x *ssa.Slice) Value {
	base := e.get(fr, x.X)
	getIdx := func(v ssa.Value, def int) int {
		if v == nil {
			return def
		}
		t := e.get(fr, v).(*Term)
		if !t.IsConst() {
			panic(abortf("UNSUPPORTED symbolic slice bound in %s at %s", fr.Fn, e.L.Prog.Fset.Position(x.Pos())))
		}
		return int(t.I64())
	}
	oob := func(lo, hi, max, cp int) {
		panic(&GoPanic{Msg: fmt.Sprintf("slice bounds out of range [%d:%d:%d] with capacity %d at %s", lo, hi, max, cp, e.L.Prog.Fset.Position(x.Pos()))})
	}
	switch b := base.(type) {
	case StrV:
		lo := getIdx(x.Low, 0)
		hi := getIdx(x.High, b.Len())
		if lo < 0 || hi < lo || hi > b.Len() {
			oob(lo, hi, hi, b.Len())
		}
		if b.IsConcrete() {
			return StrV{S: b.S[lo:hi]}
		}
		return StrFromBytes(b.Sym[lo:hi])
	case SliceV:
		lo := getIdx(x.Low, 0)
		hi := getIdx(x.High, b.Len)
		max := getIdx(x.Max, b.Cap)
		if lo < 0 || hi < lo || max < hi || max > b.Cap {
			oob(lo, hi, max, b.Cap)
		}
		if b.A == nil {
			return SliceV{}
		}
		return SliceV{A: b.A, Off: b.Off + lo, Len: hi - lo, Cap: max - lo}
	case PtrV:
		if b.IsNil() {
			panic(&GoPanic{Msg: "nil pointer dereference (slice of array pointer)"})
		}
		arr, ok := e.peek(b).(ArrayV)
		if !ok {
			panic(abortf("ENGINE Slice on pointer to %T", e.peek(b)))
		}
		n := len(arr.A.E)
		lo := getIdx(x.Low, 0)
		hi := getIdx(x.High, n)
		max := getIdx(x.Max, n)
		if lo < 0 || hi < lo || max < hi || max > n {
			oob(lo, hi, max, n)
		}
		return SliceV{A: arr.A, Off: lo, Len: hi - lo, Cap: max - lo}
	}
	panic(abortf("UNSUPPORTED Slice on %T", base))
}

// ---------- maps ----------

func (e *Exec) mapFind(m *MapObj, k Value) *MapEntry {
	for _, en := range m.E {
		if en.Deleted {
			continue
		}
		eq := e.valEq(k, en.K)
		if e.branch(eq) {
			return en
		}
	}
	return nil
}

func (e *Exec) mapSet(m *MapObj, k, v Value) {
	if en := e.mapFind(m, k); en != nil {
		en.V = v
		return
	}
	m.E = append(m.E, &MapEntry{K: k, V: v})
}

func (e *Exec) lookup(fr *Frame, x *ssa.Lookup) Value {
	base := e.get(fr, x.X)
	switch b := base.(type) {
	case MapV:
		mt := x.X.Type().Underlying().(*types.Map)
		var val Value
		found := false
		if b.M != nil {
			if en := e.mapFind(b.M, e.get(fr, x.Index)); en != nil {
				val = copyVal(en.V)
				found = true
			}
		}
		if !found {
			val = e.zero(mt.Elem())
		}
		if x.CommaOk {
			return TupleV{V: []Value{val, BoolC(found)}}
		}
		return val
	case StrV:
		idx := e.get(fr, x.Index).(*Term)
		i := e.boundsCheck(idx, b.Len(), "string", x.Pos())
		return b.Bytes()[i]
	}
	panic(abortf("UNSUPPORTED Lookup on %T", base))
}

func (e *Exec) mkRange(v Value) Value {
	switch b := v.(type) {
	case MapV:
		it := &RangeIter{Map: b.M}
		if b.M != nil {
			for i, en := range b.M.E {
				if !en.Deleted {
					it.Order = append(it.Order, i)
				}
			}
			it.Order = e.mapOrder(it.Order)
		}
		return it
	case StrV:
		return &RangeIter{Str: &b}
	}
	panic(abortf("UNSUPPORTED Range over %T", v))
}

// mapOrder picks the iteration order of a map range. Default: insertion order.
// With Cfg.PermuteMaps the order is an arbitrary permutation (forked).
func (e *Exec) mapOrder(order []int) []int {
	if !e.Cfg.PermuteMaps || len(order) < 2 {
		return order
	}
	rest := append([]int{}, order...)
	var out []int
	for len(rest) > 1 {
		i := e.choose(len(rest))
		out = append(out, rest[i])
		rest = append(rest[:i], rest[i+1:]...)
	}
	return append(out, rest[0])
}

func (e *Exec) next(fr *Frame, x *ssa.Next) Value {
	it := e.get(fr, x.Iter).(*RangeIter)
	if x.IsString {
		s := it.Str
		if it.Pos >= s.Len() {
			return TupleV{V: []Value{tFalse, BVU(64, 0), BVU(32, 0)}}
		}
		if !s.IsConcrete() {
			panic(abortf("UNSUPPORTED range over symbolic string"))
		}
		// decode rune
		r, size := decodeRune(s.S[it.Pos:])
		pos := it.Pos
		it.Pos += size
		return TupleV{V: []Value{tTrue, BVU(64, uint64(pos)), BVU(32, uint64(r))}}
	}
	mt := x.Iter.(*ssa.Range).X.Type().Underlying().(*types.Map)
	for it.Pos < len(it.Order) {
		en := it.Map.E[it.Order[it.Pos]]
		it.Pos++
		if en.Deleted {
			continue
		}
		return TupleV{V: []Value{tTrue, en.K, copyVal(en.V)}}
	}
	return TupleV{V: []Value{tFalse, e.zero(mt.Key()), e.zero(mt.Elem())}}
}

func decodeRune(s string) (rune, int) {
	for i, r := range s {
		_ = i
		return r, len(string(r))
	}
	return 0, 1
}

// ---------- conversions ----------

func (e *Exec) convert(v Value, from, to types.Type) Value {
	fu, tu := from.Underlying(), to.Underlying()
	switch t := tu.(type) {
	case *types.Basic:
		switch {
		case t.Info()&types.IsInteger != 0:
			w := intWidth(t)
			switch x := v.(type) {
			case *Term:
				if x.S.W >= w {
					return Extract(w-1, 0, x)
				}
				if isSigned(from) {
					return SExt(w, x)
				}
				return ZExt(w, x)
			case FloatV:
				if x.Sym != nil {
					panic(abortf("UNSUPPORTED symbolic float to int conversion"))
				}
				f := math.Trunc(x.F)
				bf := new(big.Float).SetFloat64(f)
				bi, _ := bf.Int(nil)
				return BVC(w, bi)
			}
		case t.Info()&types.IsFloat != 0:
			switch x := v.(type) {
			case FloatV:
				if t.Kind() == types.Float32 && x.Sym == nil {
					return FloatV{F: float64(float32(x.F))}
				}
				return x
			case *Term:
				if x.IsConst() {
					var f float64
					if isSigned(from) {
						f, _ = new(big.Float).SetInt(x.SVal()).Float64()
					} else {
						f, _ = new(big.Float).SetInt(x.C).Float64()
					}
					return FloatV{F: f}
				}
				return e.symIntToFloat(x, isSigned(from))
			}
		case t.Info()&types.IsString != 0:
			switch x := v.(type) {
			case StrV:
				return x
			case SliceV:
				bs := make([]*Term, x.Len)
				for i := 0; i < x.Len; i++ {
					bs[i] = x.A.E[x.Off+i].(*Term)
				}
				if fb, ok := fu.(*types.Slice); ok {
					if eb, ok := fb.Elem().Underlying().(*types.Basic); ok && eb.Kind() == types.Int32 {
						panic(abortf("UNSUPPORTED []rune to string"))
					}
				}
				return StrFromBytes(bs)
			case *Term:
				if x.IsConst() {
					return StrV{S: string(rune(x.I64()))}
				}
				panic(abortf("UNSUPPORTED symbolic int to string"))
			}
		case t.Kind() == types.UnsafePointer:
			return v
		}
	case *types.Slice:
		if s, ok := v.(StrV); ok {
			if eb, ok := t.Elem().Underlying().(*types.Basic); ok && eb.Kind() == types.Uint8 {
				bs := s.Bytes()
				a := &ArrObj{E: make([]Value, len(bs))}
				for i, b := range bs {
					a.E[i] = b
				}
				return SliceV{A: a, Len: len(bs), Cap: len(bs)}
			}
			panic(abortf("UNSUPPORTED string to []rune"))
		}
		return v
	case *types.Pointer:
		return v
	}
	_ = fu
	panic(abortf("UNSUPPORTED conversion %v -> %v (%T)", from, to, v))
}

// ---------- type assertions & interfaces ----------

func (e *Exec) implements(dyn types.Type, iface *types.Interface) bool {
	if iface.NumMethods() == 0 {
		return true
	}
	return types.Implements(dyn, iface)
}

func (e *Exec) typeAssert(fr *Frame, x *ssa.TypeAssert) Value {
	v := e.get(fr, x.X).(IfaceV)
	var ok bool
	var res Value
	if it, isI := x.AssertedType.Underlying().(*types.Interface); isI {
		if v.T != nil {
			if _, isErr := v.V.(*ErrObj); isErr {
				ok = isErrorInterface(it)
			} else {
				ok = e.implements(v.T, it)
			}
		}
		if ok {
			res = v
		} else {
			res = IfaceV{}
		}
	} else {
		ok = v.T != nil && types.Identical(v.T, x.AssertedType)
		if ok {
			res = v.V
		} else {
			res = e.zero(x.AssertedType)
		}
	}
	if x.CommaOk {
		return TupleV{V: []Value{res, BoolC(ok)}}
	}
	if !ok {
		dyn := "nil"
		if v.T != nil {
			dyn = v.T.String()
		}
		panic(&GoPanic{Msg: fmt.Sprintf("interface conversion: interface is %s, not %s at %s", dyn, x.AssertedType, e.L.Prog.Fset.Position(x.Pos()))})
	}
	return res
}

func isErrorInterface(it *types.Interface) bool {
	if it.NumMethods() == 0 {
		return true
	}
	return it.NumMethods() == 1 && it.Method(0).Name() == "Error"
}

func (e *Exec) doCall(fr *Frame, cc *ssa.CallCommon, site ssa.Instruction) (res Value) {
	if e.initMode {
		defer func() {
			if r := recover(); r != nil {
				switch r.(type) {
				case *pathAbort, *GoPanic:
					var sig *types.Signature
					sig, _ = cc.Value.Type().Underlying().(*types.Signature)
					if cc.IsInvoke() {
						sig = cc.Method.Type().(*types.Signature)
					}
					if sig == nil {
						res = nil
						return
					}
					func() {
						defer func() {
							if recover() != nil {
								res = nil
							}
						}()
						res = e.zeroResult(sig)
					}()
				default:
					panic(r)
				}
			}
		}()
	}
	args := make([]Value, 0, len(cc.Args)+1)
	if cc.IsInvoke() {
		recv := e.get(fr, cc.Value)
		for _, a := range cc.Args {
			args = append(args, e.get(fr, a))
		}
		return e.invoke(recv, cc.Method, args, site)
	}
	for _, a := range cc.Args {
		args = append(args, e.get(fr, a))
	}
	if b, ok := cc.Value.(*ssa.Builtin); ok {
		return e.builtin(fr, b, cc, args, site)
	}
	if fn, ok := cc.Value.(*ssa.Function); ok {
		return e.callFunction(fn, args, nil, site)
	}
	return e.callValue(e.get(fr, cc.Value), args, site)
}

func (e *Exec) invoke(recv Value, m *types.Func, args []Value, site ssa.Instruction) Value {
	iv, ok := recv.(IfaceV)
	if !ok {
		panic(abortf("ENGINE invoke on %T", recv))
	}
	if iv.T == nil {
		where := ""
		if site != nil {
			where = " at " + e.L.Prog.Fset.Position(site.Pos()).String()
		}
		panic(&GoPanic{Msg: "nil interface method call " + m.Name() + where})
	}
	if v, handled := e.invokeOpaque(iv, m, args); handled {
		return v
	}
	ms := e.L.Prog.MethodSets.MethodSet(iv.T)
	sel := ms.Lookup(m.Pkg(), m.Name())
	if sel == nil {
		panic(abortf("ENGINE method %s not found on %v", m.Name(), iv.T))
	}
	fn := e.L.Prog.MethodValue(sel)
	if fn == nil {
		panic(abortf("UNSUPPORTED abstract method %s on %v", m.Name(), iv.T))
	}
	return e.callFunction(fn, append([]Value{iv.V}, args...), nil, site)
}

// ---------- builtins ----------

func (e *Exec) builtin(fr *Frame, b *ssa.Builtin, cc *ssa.CallCommon, args []Value, site ssa.Instruction) Value {
	switch b.Name() {
	case "len":
		switch x := args[0].(type) {
		case SliceV:
			return BVI(64, int64(x.Len))
		case StrV:
			return BVI(64, int64(x.Len()))
		case ArrayV:
			return BVI(64, int64(len(x.A.E)))
		case MapV:
			if x.M == nil {
				return BVI(64, 0)
			}
			n := 0
			for _, en := range x.M.E {
				if !en.Deleted {
					n++
				}
			}
			return BVI(64, int64(n))
		case PtrV:
			if arr, ok := e.peek(x).(ArrayV); ok {
				return BVI(64, int64(len(arr.A.E)))
			}
		}
	case "cap":
		switch x := args[0].(type) {
		case SliceV:
			return BVI(64, int64(x.Cap))
		case ArrayV:
			return BVI(64, int64(len(x.A.E)))
		}
	case "append":
		s := args[0].(SliceV)
		var add []Value
		switch t := args[1].(type) {
		case SliceV:
			for i := 0; i < t.Len; i++ {
				add = append(add, copyVal(t.A.E[t.Off+i]))
			}
		case StrV:
			for _, bt := range t.Bytes() {
				add = append(add, bt)
			}
		}
		if len(add) == 0 {
			return s
		}
		if s.A != nil && s.Len+len(add) <= s.Cap {
			for i, v := range add {
				s.A.E[s.Off+s.Len+i] = v
			}
			return SliceV{A: s.A, Off: s.Off, Len: s.Len + len(add), Cap: s.Cap}
		}
		ncap := s.Len + len(add)
		if ncap < 2*s.Cap {
			ncap = 2 * s.Cap
		}
		a := &ArrObj{E: make([]Value, ncap)}
		for i := 0; i < s.Len; i++ {
			a.E[i] = s.A.E[s.Off+i]
		}
		for i, v := range add {
			a.E[s.Len+i] = v
		}
		et := cc.Args[0].Type().Underlying().(*types.Slice).Elem()
		for i := s.Len + len(add); i < ncap; i++ {
			a.E[i] = e.zero(et)
		}
		return SliceV{A: a, Len: s.Len + len(add), Cap: ncap}
	case "copy":
		d := args[0].(SliceV)
		var src []Value
		switch t := args[1].(type) {
		case SliceV:
			for i := 0; i < t.Len; i++ {
				src = append(src, t.A.E[t.Off+i])
			}
		case StrV:
			for _, bt := range t.Bytes() {
				src = append(src, bt)
			}
		}
		n := d.Len
		if len(src) < n {
			n = len(src)
		}
		for i := 0; i < n; i++ {
			d.A.E[d.Off+i] = copyVal(src[i])
		}
		return BVI(64, int64(n))
	case "delete":
		m := args[0].(MapV)
		if m.M != nil {
			if en := e.mapFind(m.M, args[1]); en != nil {
				en.Deleted = true
			}
		}
		return nil
	case "clear":
		switch x := args[0].(type) {
		case MapV:
			if x.M != nil {
				for _, en := range x.M.E {
					en.Deleted = true
				}
			}
		case SliceV:
			et := cc.Args[0].Type().Underlying().(*types.Slice).Elem()
			for i := 0; i < x.Len; i++ {
				x.A.E[x.Off+i] = e.zero(et)
			}
		}
		return nil
	case "min", "max":
		res := args[0]
		for i := 1; i < len(args); i++ {
			var lt *Term
			a, ok1 := res.(*Term)
			bb, ok2 := args[i].(*Term)
			if !ok1 || !ok2 {
				panic(abortf("UNSUPPORTED min/max on %T", res))
			}
			if isSigned(cc.Args[0].Type()) {
				lt = BVSlt(bb, a)
			} else {
				lt = BVUlt(bb, a)
			}
			if b.Name() == "max" {
				lt = Not(Or(lt, Eq(a, bb)))
			}
			res = Ite(lt, bb, a)
		}
		return res
	case "print", "println":
		return nil
	case "recover":
		// find the nearest frame that is running defers due to a panic
		for i := len(e.frames) - 2; i >= 0; i-- {
			f := e.frames[i]
			if f.Panic != nil && !f.Recovered {
				f.Recovered = true
				gp := f.Panic
				if gp.Val != nil {
					return gp.Val
				}
				return IfaceV{T: types.Typ[types.String], V: StrV{S: gp.Msg}}
			}
		}
		return IfaceV{}
	case "real", "imag", "complex":
		panic(abortf("UNSUPPORTED complex numbers"))
	case "ssa:wrapnilchk":
		p := args[0].(PtrV)
		if p.IsNil() {
			panic(&GoPanic{Msg: "value method called using nil pointer"})
		}
		return p
	}
	panic(abortf("UNSUPPORTED builtin %s on %T", b.Name(), args[0]))
}

func debugf(format string, a ...interface{}) {
	if os.Getenv("GOSYM_DEBUG") != "" {
		fmt.Fprintf(os.Stderr, format+"\n", a...)
	}
}
