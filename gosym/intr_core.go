package main

import (
	"fmt"
	"go/token"
	"go/types"
	"math"
	"math/big"
	"strings"

	"golang.org/x/tools/go/ssa"
)

type Intrinsic func(e *Exec, fn *ssa.Function, args []Value) Value

var intrinsics = map[string]Intrinsic{}

// ---------- errors ----------

type ErrObj struct {
	Msg   string
	Wraps []*ErrObj
	Sym   StrV // optional symbolic message
}

var errDynType = types.NewNamed(types.NewTypeName(token.NoPos, nil, "symbolicError", nil), types.NewStruct(nil, nil), nil)

func errVal(eo *ErrObj) IfaceV { return IfaceV{T: errDynType, V: eo} }

func newErr(msg string, wraps ...*ErrObj) IfaceV { return errVal(&ErrObj{Msg: msg, Wraps: wraps}) }

func asErrObj(v Value) *ErrObj {
	switch x := v.(type) {
	case IfaceV:
		if x.T == nil {
			return nil
		}
		if eo, ok := x.V.(*ErrObj); ok {
			return eo
		}
		// user-defined error type: wrap identity by type+value
		return &ErrObj{Msg: "user error " + x.T.String()}
	case *ErrObj:
		return x
	case PtrV:
		if eo, ok := x.Opq.(*ErrObj); ok {
			return eo
		}
	}
	return nil
}

func errIs(a, target *ErrObj) bool {
	if a == nil {
		return false
	}
	if a == target {
		return true
	}
	for _, w := range a.Wraps {
		if errIs(w, target) {
			return true
		}
	}
	return false
}

var depErrs = map[string]*ErrObj{}

func depErr(name string) *ErrObj {
	if eo, ok := depErrs[name]; ok {
		return eo
	}
	eo := &ErrObj{Msg: name}
	depErrs[name] = eo
	return eo
}

// invokeOpaque handles interface method calls on engine-internal dynamic values.
func (e *Exec) invokeOpaque(iv IfaceV, m *types.Func, args []Value) (Value, bool) {
	switch x := iv.V.(type) {
	case *ErrObj:
		switch m.Name() {
		case "Error":
			if x.Sym.Len() > 0 {
				return x.Sym, true
			}
			return StrV{S: x.Msg}, true
		case "Unwrap":
			if len(x.Wraps) > 0 {
				return errVal(x.Wraps[0]), true
			}
			return IfaceV{}, true
		}
	case *CtxV:
		return e.ctxMethod(x, m.Name(), args), true
	case PtrV:
		if eo, ok := x.Opq.(*ErrObj); ok {
			switch m.Name() {
			case "Error":
				return StrV{S: eo.Msg}, true
			}
		}
		if oo, ok := x.Opq.(*OpaqueObj); ok {
			if v, ok := e.opaqueObjMethod(oo, m.Name(), args); ok {
				return v, true
			}
		}
	case OpaqueV:
		if v, ok := e.opaqueMethod(x, m.Name(), args); ok {
			return v, true
		}
	}
	return nil, false
}

// depGlobal: value of a package-level variable of a dependency (no init is run for them).
func (e *Exec) depGlobal(g *ssa.Global, et types.Type) Value {
	name := g.Pkg.Pkg.Path() + "." + g.Name()
	if v, ok := e.knownGlobal(name, et); ok {
		return v
	}
	// error-typed globals become distinct error objects
	if isErrorLike(et) {
		eo := depErr(name)
		if _, isPtr := et.Underlying().(*types.Pointer); isPtr {
			return PtrV{Opq: eo}
		}
		return errVal(eo)
	}
	if !e.initMode {
		if e.DepGlobals == nil {
			e.DepGlobals = map[string]bool{}
		}
		e.DepGlobals[name] = true
	}
	switch et.Underlying().(type) {
	case *types.Struct, *types.Basic, *types.Array:
		return e.zeroLenient(et)
	case *types.Pointer:
		return PtrV{Opq: &OpaqueObj{Kind: "global:" + name}}
	}
	return OpaqueV{Kind: "global", ID: name}
}

func (e *Exec) zeroLenient(t types.Type) (v Value) {
	defer func() {
		if r := recover(); r != nil {
			v = OpaqueV{Kind: "zero", ID: t.String()}
		}
	}()
	return e.zero(t)
}

func isErrorLike(t types.Type) bool {
	if types.Identical(t, types.Universe.Lookup("error").Type()) {
		return true
	}
	if p, ok := t.Underlying().(*types.Pointer); ok {
		k := namedKey(p.Elem())
		return k == "cosmossdk.io/errors.Error"
	}
	return false
}

// ---------- floats (IEEE standard model in real arithmetic) ----------

func (f FloatV) real() *Term {
	if f.Sym != nil {
		return f.Sym
	}
	if f.F != math.Trunc(f.F) || math.Abs(f.F) > 1e300 {
		r := new(big.Rat)
		r.SetFloat64(f.F)
		return RealC(r.Num(), r.Denom())
	}
	bf := new(big.Float).SetFloat64(f.F)
	bi, _ := bf.Int(nil)
	return RealC(bi, bigOne)
}

// rounding: result r of an exact real operation x is any value with |r - x| <= |x| * 2^-53
func (e *Exec) roundReal(x *Term) *Term {
	r := e.freshVar("fl", RealSort)
	eps := RealC(bigOne, new(big.Int).Lsh(bigOne, 53))
	absx := Ite(mk(">=", BoolSort, x, RealC(big.NewInt(0), bigOne)), x, mk("-", RealSort, x))
	bound := mk("*", RealSort, absx, eps)
	e.assume(mk("<=", BoolSort, mk("-", RealSort, r, x), bound))
	e.assume(mk("<=", BoolSort, mk("-", RealSort, x, r), bound))
	return r
}

func (e *Exec) symFloatBinop(op token.Token, x, y FloatV) Value {
	a, b := x.real(), y.real()
	switch op {
	case token.ADD:
		return FloatV{Sym: e.roundReal(mk("+", RealSort, a, b))}
	case token.SUB:
		return FloatV{Sym: e.roundReal(mk("-", RealSort, a, b))}
	case token.MUL:
		return FloatV{Sym: e.roundReal(mk("*", RealSort, a, b))}
	case token.QUO:
		return FloatV{Sym: e.roundReal(mk("/", RealSort, a, b))}
	case token.EQL:
		return mk("=", BoolSort, a, b)
	case token.NEQ:
		return Not(mk("=", BoolSort, a, b))
	case token.LSS:
		return mk("<", BoolSort, a, b)
	case token.LEQ:
		return mk("<=", BoolSort, a, b)
	case token.GTR:
		return mk(">", BoolSort, a, b)
	case token.GEQ:
		return mk(">=", BoolSort, a, b)
	}
	panic(abortf("UNSUPPORTED float op %v", op))
}

// int -> float64: exact below 2^53 in magnitude, rounded otherwise
func (e *Exec) symIntToFloat(x *Term, signed bool) Value {
	var iv *Term
	if signed {
		iv = BV2Int(x)
	} else {
		iv = BV2Nat(x)
	}
	r := ToReal(iv)
	lim := IntC(new(big.Int).Lsh(bigOne, 53))
	small := And(ILe(iv, lim), IGe(iv, INeg(lim)))
	if e.branch(small) {
		return FloatV{Sym: r}
	}
	return FloatV{Sym: e.roundReal(r)}
}

// ---------- helpers for byte slices ----------

func sliceTerms(v Value) []*Term {
	switch x := v.(type) {
	case SliceV:
		out := make([]*Term, x.Len)
		for i := range out {
			out[i] = x.A.E[x.Off+i].(*Term)
		}
		return out
	case StrV:
		return x.Bytes()
	case ArrayV:
		out := make([]*Term, len(x.A.E))
		for i := range out {
			out[i] = x.A.E[i].(*Term)
		}
		return out
	}
	panic(abortf("ENGINE expected byte slice, got %T", v))
}

func mkByteSlice(bs []*Term) SliceV {
	a := &ArrObj{E: make([]Value, len(bs))}
	for i, b := range bs {
		a.E[i] = b
	}
	return SliceV{A: a, Len: len(bs), Cap: len(bs)}
}

func mkByteSliceOrNil(bs []*Term) SliceV {
	if len(bs) == 0 {
		return SliceV{}
	}
	return mkByteSlice(bs)
}

func concreteBytes(bs []*Term) ([]byte, bool) {
	out := make([]byte, len(bs))
	for i, b := range bs {
		if !b.IsConst() {
			return nil, false
		}
		out[i] = byte(b.U64())
	}
	return out, true
}

func bytesEq(a, b []*Term) *Term {
	if len(a) != len(b) {
		return tFalse
	}
	cs := make([]*Term, len(a))
	for i := range a {
		cs[i] = Eq(a[i], b[i])
	}
	return And(cs...)
}

func splitBytes(t *Term) []*Term {
	n := t.S.W / 8
	out := make([]*Term, n)
	for i := 0; i < n; i++ {
		hi := t.S.W - 1 - 8*i
		out[i] = Extract(hi, hi-7, t)
	}
	return out
}

func joinBytes(bs []*Term) *Term {
	if len(bs) == 0 {
		panic(abortf("ENGINE joinBytes of empty"))
	}
	return Concat(bs...)
}

// hashUF: hash of a byte string of known length. Concrete inputs are evaluated with the
// real hash; symbolic inputs become an uninterpreted function per input length. The
// hash is idealised as collision-free on the inputs that occur on the path: for every
// pair of applications, outputs are equal iff inputs are equal (ground instances of
// injectivity + functional consistency, also against concretely evaluated hashes).
func (e *Exec) hashUF(name string, in []*Term, outBytes int) []*Term {
	var outT *Term
	var out []*Term
	if raw, ok := concreteBytes(in); ok || len(in) == 0 {
		f, okf := concreteHashes[name]
		if !okf {
			panic(abortf("ENGINE no concrete hash %s", name))
		}
		res := f(raw)
		out = make([]*Term, len(res))
		for i, b := range res {
			out[i] = BVU(8, uint64(b))
		}
		if len(in) == 0 {
			return out
		}
		outT = joinBytes(out)
	} else {
		uf := fmt.Sprintf("%s_%d", name, len(in))
		outT = UF(uf, BVSort(8*outBytes), joinBytes(in))
		out = splitBytes(outT)
	}
	if e.hashApps == nil {
		e.hashApps = map[string][]hashApp{}
	}
	for _, prev := range e.hashApps[name] {
		if len(prev.in) == len(in) && sameTerms(prev.in, in) {
			// the same application again: reuse the very same output terms
			return splitBytes(prev.out)
		}
	}
	for _, prev := range e.hashApps[name] {
		if prev.out.IsConst() && outT.IsConst() {
			continue
		}
		if len(prev.in) != len(in) {
			e.assume(Not(Eq(prev.out, outT)))
			continue
		}
		e.assume(Eq(Eq(prev.out, outT), bytesEq(prev.in, in)))
	}
	e.hashApps[name] = append(e.hashApps[name], hashApp{in: in, out: outT})
	return out
}

// sameTerm: structural equality of two terms (pointer-equal subterms short-circuit).
func sameTerm(a, b *Term, memo map[[2]*Term]bool) bool {
	if a == b {
		return true
	}
	if a.Op != b.Op || a.S != b.S || len(a.Args) != len(b.Args) || a.Hi != b.Hi || a.Lo != b.Lo || a.Name != b.Name {
		return false
	}
	if a.Op == "const" {
		return sameConst(a, b)
	}
	if len(a.Args) == 0 {
		return a.Op == "var"
	}
	k := [2]*Term{a, b}
	if v, ok := memo[k]; ok {
		return v
	}
	res := true
	for i := range a.Args {
		if !sameTerm(a.Args[i], b.Args[i], memo) {
			res = false
			break
		}
	}
	memo[k] = res
	return res
}

func sameTerms(a, b []*Term) bool {
	memo := map[[2]*Term]bool{}
	for i := range a {
		if !sameTerm(a[i], b[i], memo) {
			return false
		}
	}
	return true
}

func sliceOfSlices(v Value) [][]*Term {
	s := v.(SliceV)
	out := make([][]*Term, s.Len)
	for i := range out {
		out[i] = sliceTerms(s.A.E[s.Off+i])
	}
	return out
}

func (e *Exec) tryPatternIntrinsic(fn *ssa.Function, key string, args []Value) (Value, bool) {
	// logging and event plumbing: no-ops
	switch {
	case strings.HasPrefix(key, "(cosmossdk.io/log."), strings.HasPrefix(key, "cosmossdk.io/log."):
		return e.zeroResult(fn.Signature), true
	case strings.Contains(key, "EventManager)."):
		return e.zeroResult(fn.Signature), true
	case strings.HasPrefix(key, "github.com/cosmos/cosmos-sdk/types.NewEvent"), strings.HasPrefix(key, "github.com/cosmos/cosmos-sdk/types.NewAttribute"):
		return e.zeroResult(fn.Signature), true
	case strings.HasPrefix(key, "(github.com/cosmos/cosmos-sdk/types.Event)."):
		return e.zeroResult(fn.Signature), true
	case strings.HasPrefix(key, "github.com/cosmos/cosmos-sdk/telemetry."):
		return e.zeroResult(fn.Signature), true
	}
	return nil, false
}
