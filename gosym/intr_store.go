package main

// Model of cosmossdk.io/collections over a finite in-memory map per collection.
// Contract (collections v0.4.0): Get of an absent key returns an error wrapping
// collections.ErrNotFound; Sequence.Peek of absent = 0; Remove of absent is no error;
// iteration order = key codec order; values are (de)serialised on every access
// (deep copies; empty slices come back nil).

import (
	"fmt"
	"go/types"

	"golang.org/x/tools/go/ssa"
)

type Coll struct {
	ID      int
	Name    string
	Kind    string // item, map, keyset, seq
	KeyT    types.Type
	ValT    types.Type
	Entries []*storeEntry
	Svc     string
}

type storeEntry struct {
	K, V Value
}

type CollV struct {
	C *Coll
}

type PairV struct {
	A, B       Value
	HasA, HasB bool
}

type RangeSpec struct {
	Desc      bool
	EndIncl   Value
	EndExcl   Value
	StartIncl Value
	StartExcl Value
	Prefix    Value
	HasPrefix bool
}

type IterObj struct {
	Entries []*storeEntry
	Pos     int
	Coll    *Coll
}

type StoreOp struct {
	Op   string
	Coll string
}

type StoreState struct {
	Colls []*Coll
	Log   []StoreOp
	Gas   *Term // ghost gas (BV64), flat costs only
}

const collPkg = "cosmossdk.io/collections"

var errNotFound = depErr(collPkg + ".ErrNotFound")

func (e *Exec) store_() *StoreState {
	if e.SS == nil {
		e.SS = &StoreState{Gas: BVU(64, 0)}
	}
	return e.SS
}

func (e *Exec) storeOp(op string, c *Coll) {
	ss := e.store_()
	e.StoreOps++
	ss.Log = append(ss.Log, StoreOp{op, c.Name})
	var cost uint64
	switch op {
	case "get", "has":
		cost = 1000
	case "set":
		cost = 2000
	case "remove":
		cost = 1000
	case "iter":
		cost = 30
	}
	ss.Gas = BVAdd(ss.Gas, BVU(64, cost))
}

func typeArgsOf(t types.Type) []types.Type {
	t = types.Unalias(t)
	for {
		n, ok := t.(*types.Named)
		if !ok {
			return nil
		}
		if ta := n.TypeArgs(); ta != nil && ta.Len() > 0 {
			out := make([]types.Type, ta.Len())
			for i := range out {
				out[i] = ta.At(i)
			}
			return out
		}
		// e.g. Sequence -> Item[uint64] -> Map[noKey, uint64]
		u, ok := n.Underlying().(*types.Named)
		if !ok {
			return nil
		}
		t = u
	}
}

func (e *Exec) newColl(kind string, fn *ssa.Function, a []Value) Value {
	ss := e.store_()
	name := "?"
	if len(a) >= 3 {
		name = strOrSym(a[2])
	}
	rt := fn.Signature.Results().At(0).Type()
	targs := typeArgsOf(rt)
	// collections are identified by (store service, collection name): a second keeper built
	// over the same store service sees the same data (a restarted process)
	svc := ""
	if len(a) >= 1 {
		if p, ok := a[0].(PtrV); ok {
			if oo, ok := p.Opq.(*OpaqueObj); ok {
				svc, _ = oo.Data.(string)
			}
		}
	}
	for _, old := range ss.Colls {
		if old.Svc == svc && old.Name == name && old.Kind == kind {
			return CollV{C: old}
		}
	}
	c := &Coll{ID: len(ss.Colls), Name: name, Kind: kind, Svc: svc}
	switch kind {
	case "item":
		if len(targs) >= 1 {
			c.ValT = targs[len(targs)-1]
		}
	case "map":
		if len(targs) == 2 {
			c.KeyT, c.ValT = targs[0], targs[1]
		}
	case "keyset":
		if len(targs) >= 1 {
			c.KeyT = targs[0]
		}
	case "seq":
		c.ValT = types.Typ[types.Uint64]
	}
	ss.Colls = append(ss.Colls, c)
	return CollV{C: c}
}

func (e *Exec) collOf(v Value) *Coll {
	cv, ok := v.(CollV)
	if !ok || cv.C == nil {
		panic(abortf("UNSUPPORTED use of uninitialised collection (%T)", v))
	}
	return cv.C
}

// key equality as a term
func (e *Exec) keyEq(a, b Value) *Term {
	switch x := a.(type) {
	case PairV:
		y := b.(PairV)
		return And(e.keyEq(x.A, y.A), e.keyEq(x.B, y.B))
	case SliceV:
		return bytesEq(sliceTerms(x), sliceTerms(b))
	case nil:
		return tTrue
	}
	return e.valEq(a, b)
}

func (e *Exec) keyLess(a, b Value) *Term {
	switch x := a.(type) {
	case PairV:
		y := b.(PairV)
		return Or(e.keyLess(x.A, y.A), And(e.keyEq(x.A, y.A), e.keyLess(x.B, y.B)))
	case SliceV:
		return bytesLess(sliceTerms(x), sliceTerms(b))
	case StrV:
		return bytesLess(x.Bytes(), b.(StrV).Bytes())
	case *Term:
		return BVUlt(x, b.(*Term))
	case TimeV:
		return BVSlt(x.T, b.(TimeV).T)
	}
	panic(abortf("UNSUPPORTED key ordering on %T", a))
}

func (e *Exec) find(c *Coll, k Value) (int, *storeEntry) {
	for i, en := range c.Entries {
		if e.branch(e.keyEq(k, en.K)) {
			return i, en
		}
	}
	return -1, nil
}

func notFoundErr(c *Coll) IfaceV {
	return errVal(&ErrObj{Msg: "collections: not found: " + c.Name, Wraps: []*ErrObj{errNotFound}})
}

func (e *Exec) collGet(c *Coll, k Value) Value {
	e.storeOp("get", c)
	_, en := e.find(c, k)
	if en == nil {
		var z Value
		if c.ValT != nil {
			z = e.zero(c.ValT)
		}
		return TupleV{V: []Value{z, notFoundErr(c)}}
	}
	return TupleV{V: []Value{deepCopy(en.V), IfaceV{}}}
}

func (e *Exec) collSet(c *Coll, k, v Value) {
	e.storeOp("set", c)
	_, en := e.find(c, k)
	if en != nil {
		en.V = deepCopy(v)
		return
	}
	c.Entries = append(c.Entries, &storeEntry{K: deepCopy(k), V: deepCopy(v)})
}

func (e *Exec) collRemove(c *Coll, k Value) {
	e.storeOp("remove", c)
	i, en := e.find(c, k)
	if en != nil {
		c.Entries = append(c.Entries[:i:i], c.Entries[i+1:]...)
	}
}

func (e *Exec) rangeSpecOf(v Value) *RangeSpec {
	switch x := v.(type) {
	case IfaceV:
		if x.T == nil {
			return &RangeSpec{}
		}
		return e.rangeSpecOf(x.V)
	case PtrV:
		if x.IsNil() {
			return &RangeSpec{}
		}
		if rs, ok := x.C.V.(*RangeSpec); ok {
			return rs
		}
		return &RangeSpec{}
	case *RangeSpec:
		return x
	}
	panic(abortf("UNSUPPORTED ranger %T", v))
}

// rangerRecv returns the RangeSpec stored in the receiver cell, creating it on first use
func (e *Exec) rangerRecv(v Value) (*RangeSpec, PtrV) {
	p := v.(PtrV)
	if p.IsNil() || p.C == nil || len(p.Path) != 0 {
		panic(abortf("UNSUPPORTED range receiver"))
	}
	rs, ok := p.C.V.(*RangeSpec)
	if !ok {
		rs = &RangeSpec{}
		p.C.V = rs
	}
	return rs, p
}

func (e *Exec) collIter(c *Coll, ranger Value) *IterObj {
	rs := e.rangeSpecOf(ranger)
	var sel []*storeEntry
	for _, en := range c.Entries {
		ok := true
		if rs.HasPrefix {
			pk := en.K.(PairV)
			if !e.branch(e.keyEq(pk.A, rs.Prefix)) {
				ok = false
			}
		}
		if ok && rs.EndIncl != nil {
			if e.branch(e.keyLess(rs.EndIncl, en.K)) {
				ok = false
			}
		}
		if ok && rs.EndExcl != nil {
			if !e.branch(e.keyLess(en.K, rs.EndExcl)) {
				ok = false
			}
		}
		if ok && rs.StartIncl != nil {
			if e.branch(e.keyLess(en.K, rs.StartIncl)) {
				ok = false
			}
		}
		if ok && rs.StartExcl != nil {
			if !e.branch(e.keyLess(rs.StartExcl, en.K)) {
				ok = false
			}
		}
		if ok {
			sel = append(sel, en)
		}
	}
	// insertion sort with symbolic comparisons (forks)
	sorted := make([]*storeEntry, 0, len(sel))
	for _, en := range sel {
		pos := len(sorted)
		for pos > 0 && e.branch(e.keyLess(en.K, sorted[pos-1].K)) {
			pos--
		}
		sorted = append(sorted, nil)
		copy(sorted[pos+1:], sorted[pos:])
		sorted[pos] = en
	}
	if rs.Desc {
		for i, j := 0, len(sorted)-1; i < j; i, j = i+1, j-1 {
			sorted[i], sorted[j] = sorted[j], sorted[i]
		}
	}
	// snapshot values (iterators read the store lazily in reality; the repo never mutates while iterating a live iterator except where noted)
	snap := make([]*storeEntry, len(sorted))
	for i, en := range sorted {
		snap[i] = en
	}
	e.storeOp("iter", c)
	return &IterObj{Entries: snap, Coll: c}
}

func pairOf(v Value) PairV {
	p, ok := v.(PairV)
	if !ok {
		panic(abortf("ENGINE expected Pair, got %T", v))
	}
	return p
}

func init() {
	I := intrinsics
	I[collPkg+".NewSchemaBuilder"] = func(e *Exec, fn *ssa.Function, a []Value) Value {
		svc := ""
		if iv, ok := a[0].(IfaceV); ok {
			if ov, ok := iv.V.(OpaqueV); ok {
				svc = ov.ID
			}
		}
		return PtrV{Opq: &OpaqueObj{Kind: "schemabuilder", Data: svc}}
	}
	I["(*"+collPkg+".SchemaBuilder).Build"] = func(e *Exec, fn *ssa.Function, a []Value) Value {
		return TupleV{V: []Value{OpaqueV{Kind: "schema"}, IfaceV{}}}
	}
	I[collPkg+".NewPrefix"] = func(e *Exec, fn *ssa.Function, a []Value) Value { return OpaqueV{Kind: "prefix"} }
	I[collPkg+".NewItem"] = func(e *Exec, fn *ssa.Function, a []Value) Value { return e.newColl("item", fn, a) }
	I[collPkg+".NewMap"] = func(e *Exec, fn *ssa.Function, a []Value) Value { return e.newColl("map", fn, a) }
	I[collPkg+".NewKeySet"] = func(e *Exec, fn *ssa.Function, a []Value) Value { return e.newColl("keyset", fn, a) }
	I[collPkg+".NewSequence"] = func(e *Exec, fn *ssa.Function, a []Value) Value { return e.newColl("seq", fn, a) }
	I[collPkg+".PairKeyCodec"] = func(e *Exec, fn *ssa.Function, a []Value) Value { return OpaqueV{Kind: "codec"} }
	I["github.com/cosmos/cosmos-sdk/codec.CollValue"] = func(e *Exec, fn *ssa.Function, a []Value) Value { return OpaqueV{Kind: "codec"} }
	I[collPkg+".Join"] = func(e *Exec, fn *ssa.Function, a []Value) Value {
		return PairV{A: a[0], B: a[1], HasA: true, HasB: true}
	}
	I["("+collPkg+".Pair[K1, K2]).K1"] = func(e *Exec, fn *ssa.Function, a []Value) Value { return pairOf(a[0]).A }
	I["("+collPkg+".Pair[K1, K2]).K2"] = func(e *Exec, fn *ssa.Function, a []Value) Value { return pairOf(a[0]).B }

	// Item
	I["("+collPkg+".Item[V]).Get"] = func(e *Exec, fn *ssa.Function, a []Value) Value { return e.collGet(e.collOf(a[0]), nil) }
	I["("+collPkg+".Item[V]).Set"] = func(e *Exec, fn *ssa.Function, a []Value) Value {
		e.collSet(e.collOf(a[0]), nil, a[2])
		return IfaceV{}
	}
	I["("+collPkg+".Item[V]).Has"] = func(e *Exec, fn *ssa.Function, a []Value) Value {
		c := e.collOf(a[0])
		e.storeOp("has", c)
		return TupleV{V: []Value{BoolC(len(c.Entries) > 0), IfaceV{}}}
	}
	I["("+collPkg+".Item[V]).Remove"] = func(e *Exec, fn *ssa.Function, a []Value) Value {
		e.collRemove(e.collOf(a[0]), nil)
		return IfaceV{}
	}
	// Sequence
	I["("+collPkg+".Sequence).Peek"] = func(e *Exec, fn *ssa.Function, a []Value) Value {
		c := e.collOf(a[0])
		e.storeOp("get", c)
		if len(c.Entries) == 0 {
			return TupleV{V: []Value{BVU(64, 0), IfaceV{}}}
		}
		return TupleV{V: []Value{c.Entries[0].V, IfaceV{}}}
	}
	I["("+collPkg+".Sequence).Set"] = func(e *Exec, fn *ssa.Function, a []Value) Value {
		e.collSet(e.collOf(a[0]), nil, a[2])
		return IfaceV{}
	}
	I["("+collPkg+".Sequence).Next"] = func(e *Exec, fn *ssa.Function, a []Value) Value {
		c := e.collOf(a[0])
		e.storeOp("get", c)
		var cur *Term = BVU(64, 0)
		if len(c.Entries) > 0 {
			cur = c.Entries[0].V.(*Term)
		}
		e.collSet(c, nil, BVAdd(cur, BVU(64, 1)))
		return TupleV{V: []Value{cur, IfaceV{}}}
	}
	// Map
	I["("+collPkg+".Map[K, V]).Get"] = func(e *Exec, fn *ssa.Function, a []Value) Value { return e.collGet(e.collOf(a[0]), a[2]) }
	I["("+collPkg+".Map[K, V]).Set"] = func(e *Exec, fn *ssa.Function, a []Value) Value {
		e.collSet(e.collOf(a[0]), a[2], a[3])
		return IfaceV{}
	}
	I["("+collPkg+".Map[K, V]).Has"] = func(e *Exec, fn *ssa.Function, a []Value) Value {
		c := e.collOf(a[0])
		e.storeOp("has", c)
		_, en := e.find(c, a[2])
		return TupleV{V: []Value{BoolC(en != nil), IfaceV{}}}
	}
	I["("+collPkg+".Map[K, V]).Remove"] = func(e *Exec, fn *ssa.Function, a []Value) Value {
		e.collRemove(e.collOf(a[0]), a[2])
		return IfaceV{}
	}
	iterate := func(e *Exec, fn *ssa.Function, a []Value) Value {
		it := e.collIter(e.collOf(a[0]), a[2])
		return TupleV{V: []Value{it, IfaceV{}}}
	}
	I["("+collPkg+".Map[K, V]).Iterate"] = iterate
	I["("+collPkg+".KeySet[K]).Iterate"] = iterate
	I["("+collPkg+".Map[K, V]).Walk"] = func(e *Exec, fn *ssa.Function, a []Value) Value {
		it := e.collIter(e.collOf(a[0]), a[2])
		for _, en := range it.Entries {
			r := e.callValue(a[3], []Value{deepCopy(en.K), deepCopy(en.V)}, nil).(TupleV)
			if err := r.V[1].(IfaceV); err.T != nil {
				return err
			}
			if e.branch(r.V[0].(*Term)) {
				break
			}
		}
		return IfaceV{}
	}
	I["("+collPkg+".Map[K, V]).Clear"] = func(e *Exec, fn *ssa.Function, a []Value) Value {
		c := e.collOf(a[0])
		rs := e.rangeSpecOf(a[2])
		if rs.HasPrefix || rs.EndIncl != nil || rs.EndExcl != nil || rs.StartIncl != nil || rs.StartExcl != nil {
			it := e.collIter(c, a[2])
			for _, en := range it.Entries {
				e.collRemove(c, en.K)
			}
			return IfaceV{}
		}
		c.Entries = nil
		e.storeOp("remove", c)
		return IfaceV{}
	}
	I["("+collPkg+".KeySet[K]).Clear"] = I["("+collPkg+".Map[K, V]).Clear"]
	// KeySet
	I["("+collPkg+".KeySet[K]).Set"] = func(e *Exec, fn *ssa.Function, a []Value) Value {
		e.collSet(e.collOf(a[0]), a[2], nil)
		return IfaceV{}
	}
	I["("+collPkg+".KeySet[K]).Has"] = I["("+collPkg+".Map[K, V]).Has"]
	I["("+collPkg+".KeySet[K]).Remove"] = I["("+collPkg+".Map[K, V]).Remove"]

	// Iterators
	iterOf := func(v Value) *IterObj {
		it, ok := v.(*IterObj)
		if !ok {
			panic(abortf("ENGINE iterator expected, got %T", v))
		}
		return it
	}
	for _, pre := range []string{"(" + collPkg + ".Iterator[K, V])", "(" + collPkg + ".KeySetIterator[K])"} {
		I[pre+".Valid"] = func(e *Exec, fn *ssa.Function, a []Value) Value {
			it := iterOf(a[0])
			return BoolC(it.Pos < len(it.Entries))
		}
		I[pre+".Next"] = func(e *Exec, fn *ssa.Function, a []Value) Value {
			it := iterOf(a[0])
			it.Pos++
			e.storeOp("iter", it.Coll)
			return nil
		}
		I[pre+".Close"] = func(e *Exec, fn *ssa.Function, a []Value) Value { return IfaceV{} }
		I[pre+".Key"] = func(e *Exec, fn *ssa.Function, a []Value) Value {
			it := iterOf(a[0])
			if it.Pos >= len(it.Entries) {
				panic(&GoPanic{Msg: "iterator: Key on invalid iterator"})
			}
			return TupleV{V: []Value{deepCopy(it.Entries[it.Pos].K), IfaceV{}}}
		}
		I[pre+".Value"] = func(e *Exec, fn *ssa.Function, a []Value) Value {
			it := iterOf(a[0])
			if it.Pos >= len(it.Entries) {
				panic(&GoPanic{Msg: "iterator: Value on invalid iterator"})
			}
			return TupleV{V: []Value{deepCopy(it.Entries[it.Pos].V), IfaceV{}}}
		}
		I[pre+".KeyValue"] = func(e *Exec, fn *ssa.Function, a []Value) Value {
			it := iterOf(a[0])
			if it.Pos >= len(it.Entries) {
				panic(&GoPanic{Msg: "iterator: KeyValue on invalid iterator"})
			}
			en := it.Entries[it.Pos]
			return TupleV{V: []Value{&StructV{F: []Value{deepCopy(en.K), deepCopy(en.V)}}, IfaceV{}}}
		}
		I[pre+".Keys"] = func(e *Exec, fn *ssa.Function, a []Value) Value {
			it := iterOf(a[0])
			arr := &ArrObj{}
			for ; it.Pos < len(it.Entries); it.Pos++ {
				arr.E = append(arr.E, deepCopy(it.Entries[it.Pos].K))
			}
			if len(arr.E) == 0 {
				return TupleV{V: []Value{SliceV{}, IfaceV{}}}
			}
			return TupleV{V: []Value{SliceV{A: arr, Len: len(arr.E), Cap: len(arr.E)}, IfaceV{}}}
		}
		I[pre+".Values"] = func(e *Exec, fn *ssa.Function, a []Value) Value {
			it := iterOf(a[0])
			arr := &ArrObj{}
			for ; it.Pos < len(it.Entries); it.Pos++ {
				arr.E = append(arr.E, deepCopy(it.Entries[it.Pos].V))
			}
			if len(arr.E) == 0 {
				return TupleV{V: []Value{SliceV{}, IfaceV{}}}
			}
			return TupleV{V: []Value{SliceV{A: arr, Len: len(arr.E), Cap: len(arr.E)}, IfaceV{}}}
		}
	}
	// Rangers
	I["(*"+collPkg+".Range[K]).Descending"] = func(e *Exec, fn *ssa.Function, a []Value) Value {
		rs, p := e.rangerRecv(a[0])
		rs.Desc = true
		return p
	}
	I["(*"+collPkg+".PairRange[K1, K2]).Descending"] = I["(*"+collPkg+".Range[K]).Descending"]
	I["(*"+collPkg+".Range[K]).EndInclusive"] = func(e *Exec, fn *ssa.Function, a []Value) Value {
		rs, p := e.rangerRecv(a[0])
		rs.EndIncl = a[1]
		return p
	}
	I["(*"+collPkg+".Range[K]).EndExclusive"] = func(e *Exec, fn *ssa.Function, a []Value) Value {
		rs, p := e.rangerRecv(a[0])
		rs.EndExcl = a[1]
		return p
	}
	I["(*"+collPkg+".Range[K]).StartInclusive"] = func(e *Exec, fn *ssa.Function, a []Value) Value {
		rs, p := e.rangerRecv(a[0])
		rs.StartIncl = a[1]
		return p
	}
	I["(*"+collPkg+".Range[K]).StartExclusive"] = func(e *Exec, fn *ssa.Function, a []Value) Value {
		rs, p := e.rangerRecv(a[0])
		rs.StartExcl = a[1]
		return p
	}
	I[collPkg+".NewPrefixedPairRange"] = func(e *Exec, fn *ssa.Function, a []Value) Value {
		return PtrV{C: e.newCell(&RangeSpec{Prefix: a[0], HasPrefix: true})}
	}
}

var _ = fmt.Sprint

// snapshot / restore of the whole store (baseapp's cache-wrapped transaction execution)
func (ss *StoreState) snapshot() [][]*storeEntry {
	out := make([][]*storeEntry, len(ss.Colls))
	for i, c := range ss.Colls {
		cp := make([]*storeEntry, len(c.Entries))
		for j, en := range c.Entries {
			cp[j] = &storeEntry{K: deepCopy(en.K), V: deepCopy(en.V)}
		}
		out[i] = cp
	}
	return out
}

func (ss *StoreState) restore(snap [][]*storeEntry) {
	for i, c := range ss.Colls {
		if i < len(snap) {
			c.Entries = snap[i]
		} else {
			c.Entries = nil
		}
	}
}
