package main

import (
	"bufio"
	"encoding/json"
	"flag"
	"fmt"
	"os"
	osexec "os/exec"
	"path/filepath"
	"sort"
	"strconv"
	"strings"
	"time"
)

type HSpec struct {
	Pkg          string `json:"pkg"`
	Fn           string `json:"fn"`
	PermuteMaps  bool   `json:"permute_maps,omitempty"`
	Race         bool   `json:"race,omitempty"`
	ThoroughOnly bool   `json:"thorough_only,omitempty"`
	IntOverflow  bool   `json:"check_int_overflow,omitempty"`
	MaxDecisions int    `json:"max_decisions,omitempty"`
	TimeoutMs    int    `json:"timeout_ms,omitempty"`
	ReplayRepeat int    `json:"replay_repeat,omitempty"`
	IntArith     bool   `json:"int_arith,omitempty"`
	RangeFacts   bool   `json:"range_facts,omitempty"`
}

type PropSpec struct {
	ID          string            `json:"id"`
	Harnesses   []HSpec           `json:"harnesses"`
	Assumptions []string          `json:"assumptions"`
	Outside     []string          `json:"outside_claim"`
	Stubs       []string          `json:"stubs"`
	Bounds      map[string]string `json:"bounds"`
	ArithMode   string            `json:"arith_mode"`
}

type KnownFinding struct {
	Status   string `json:"status"` // known | fixed
	Property string `json:"property"`
	Harness  string `json:"harness,omitempty"`
	Label    string `json:"label,omitempty"`
	Region   string `json:"region,omitempty"` // SMT-LIB Bool expression over harness input names
	RegionID string `json:"region_id,omitempty"` // or: a region predicate the harness registers with h.Region(id, cond)
	What     string `json:"what"`
	Commit   string `json:"commit,omitempty"`
}

func loadProps() map[string]*PropSpec {
	raw, err := os.ReadFile(filepath.Join(verifDir(), "props.json"))
	if err != nil {
		fatalf("props.json: %v", err)
	}
	var list []*PropSpec
	if err := json.Unmarshal(raw, &list); err != nil {
		fatalf("props.json: %v", err)
	}
	m := map[string]*PropSpec{}
	for _, p := range list {
		m[p.ID] = p
	}
	return m
}

func loadKnown() []*KnownFinding {
	f, err := os.Open(filepath.Join(verifDir(), "known_findings.jsonl"))
	if err != nil {
		return nil
	}
	defer f.Close()
	var out []*KnownFinding
	sc := bufio.NewScanner(f)
	sc.Buffer(make([]byte, 1<<20), 1<<20)
	for sc.Scan() {
		line := strings.TrimSpace(sc.Text())
		if line == "" || strings.HasPrefix(line, "#") {
			continue
		}
		var k KnownFinding
		if err := json.Unmarshal([]byte(line), &k); err != nil {
			fatalf("known_findings.jsonl: %v", err)
		}
		out = append(out, &k)
	}
	return out
}

func fullPkg(p string) string {
	if strings.HasPrefix(p, repoMod) {
		return p
	}
	return repoMod + "/" + strings.TrimPrefix(p, "/")
}

func cmdCheck(args []string) {
	fs := flag.NewFlagSet("check", flag.ExitOnError)
	workers := fs.Int("j", 16, "workers")
	only := fs.String("only", "", "run only this harness (debug; evidence not written)")
	keep := fs.Bool("v", false, "verbose")
	fs.Parse(args)
	if fs.NArg() < 1 {
		fatalf("usage: gosym check <property> [quick|thorough]")
	}
	id := fs.Arg(0)
	tier := "quick"
	if fs.NArg() > 1 {
		tier = fs.Arg(1)
	}
	if t := os.Getenv("VERIF_TIER"); t != "" && fs.NArg() < 2 {
		tier = t
	}
	seed := 0
	if s := os.Getenv("VERIF_SEED"); s != "" {
		seed, _ = strconv.Atoi(s)
	}
	os.Setenv("VERIF_TIER", tier)
	props := loadProps()
	ps := props[id]
	if ps == nil {
		fatalf("unknown property %s", id)
	}
	start := time.Now()
	known := loadKnown()

	ov, ovPaths, err := buildOverlay(repoDir(), verifDir())
	if err != nil {
		fatalf("overlay: %v", err)
	}
	rootSet := map[string]bool{vrtPkg: true}
	for _, h := range ps.Harnesses {
		rootSet[fullPkg(h.Pkg)] = true
	}
	var hpk []string
	for r := range rootSet {
		hpk = append(hpk, r)
	}
	L, err := loadProgram(repoDir(), ov, rootsFor(hpk))
	if err != nil {
		fmt.Printf("INCONCLUSIVE property=%s load failed: %v\n", id, err)
		os.Exit(2)
	}
	baseCfg := defaultConfig()
	baseCfg.Thorough = tier == "thorough"
	baseCfg.Workers = *workers
	baseCfg.CrossCheck = 10
	baseCfg.BudgetS = 900 // per harness; exceeding it ends the check INCONCLUSIVE (exit 2)
	if baseCfg.Thorough {
		baseCfg.TimeoutMs = 600000
		baseCfg.CrossCheck = 150
		baseCfg.BudgetS = 3600
	}
	if v := os.Getenv("GOSYM_BUDGET_S"); v != "" {
		baseCfg.BudgetS, _ = strconv.Atoi(v)
	}
	if v := os.Getenv("GOSYM_CROSSCHECK"); v != "" {
		baseCfg.CrossCheck, _ = strconv.Atoi(v)
	}
	init := runInits(L, baseCfg)
	loadTime := time.Since(start)

	exit := 0
	inconclusive := []string{}
	var runs []*HarnessRun
	type pendingReplay struct {
		c    *ReplayCase
		kind string // violation | known | witness
		v    *Violation
		kf   *KnownFinding
		hs   HSpec
	}
	byPkg := map[string][]*pendingReplay{}
	harnessNamesByPkg := map[string][]string{}
	pkgName := map[string]string{}
	for p := range rootSet {
		sp := L.Pkgs[p]
		if sp == nil {
			continue
		}
		pkgName[p] = sp.Pkg.Name()
		for name := range sp.Members {
			if strings.HasPrefix(name, "VH_") {
				if f := sp.Func(name); f != nil {
					harnessNamesByPkg[p] = append(harnessNamesByPkg[p], name)
				}
			}
		}
	}
	nrep := 0
	for _, hs := range ps.Harnesses {
		if hs.ThoroughOnly && tier != "thorough" {
			continue
		}
		if *only != "" && hs.Fn != *only {
			continue
		}
		p := fullPkg(hs.Pkg)
		sp := L.Pkgs[p]
		if sp == nil || sp.Func(hs.Fn) == nil {
			inconclusive = append(inconclusive, "harness "+hs.Fn+" not found")
			continue
		}
		cfg := *baseCfg
		cfg.PermuteMaps = hs.PermuteMaps
		cfg.RangeFacts = hs.RangeFacts
		cfg.CheckIntOverflow = hs.IntOverflow
		if hs.MaxDecisions > 0 {
			cfg.MaxDecisions = hs.MaxDecisions
		}
		if hs.TimeoutMs > 0 {
			cfg.TimeoutMs = hs.TimeoutMs
		}
		cfg.Known = map[string][]*KnownFinding{}
		for _, k := range known {
			if k.Status == "known" && k.Property == id && k.Harness == hs.Fn {
				cfg.Known[k.Label] = append(cfg.Known[k.Label], k)
			}
		}
		LiftMulDiv = hs.IntArith
		hr := explore(L, init, sp.Func(hs.Fn), &cfg)
		LiftMulDiv = false
		runs = append(runs, hr)
		if *keep {
			fmt.Print(hr.Summary())
		}
		for k, n := range hr.Aborts {
			inconclusive = append(inconclusive, fmt.Sprintf("%s: %s (x%d)", hs.Fn, k, n))
		}
		if len(hr.Reached) == 0 && len(hr.Violations) == 0 {
			inconclusive = append(inconclusive, hs.Fn+": VACUOUS no Reach label was reached")
		}
		for _, v := range hr.Violations {
			if v.Model == nil {
				inconclusive = append(inconclusive, hs.Fn+": violation candidate without model: "+v.Label+" "+v.Detail)
				continue
			}
			nrep++
			kind := "violation"
			if v.Known != nil {
				kind = "known"
			}
			byPkg[p] = append(byPkg[p], &pendingReplay{c: &ReplayCase{ID: fmt.Sprintf("cex%03d", nrep), Harness: hs.Fn, Model: v.Model, Notes: v.Notes}, kind: kind, v: v, kf: v.Known, hs: hs})
		}
		nw := 0
		for _, w := range hr.Witnesses {
			if nw >= 3 {
				break
			}
			nw++
			nrep++
			byPkg[p] = append(byPkg[p], &pendingReplay{c: &ReplayCase{ID: fmt.Sprintf("wit%03d", nrep), Harness: hs.Fn, Model: w.Model, Notes: w.Notes}, kind: "witness", hs: hs})
		}
	}

	// ---- native replay ----
	replayRoot := filepath.Join(outDir(), "replay", id)
	os.RemoveAll(replayRoot)
	validated := 0
	noteMismatch := 0
	var violationLines, knownLines []string
	replayStart := time.Now()
	var pkgs []string
	for p := range byPkg {
		pkgs = append(pkgs, p)
	}
	sort.Strings(pkgs)
	for _, p := range pkgs {
		list := byPkg[p]
		race := false
		repeat := 1
		var cases []*ReplayCase
		for _, pr := range list {
			cases = append(cases, pr.c)
			if pr.hs.Race {
				race = true
			}
			if pr.hs.ReplayRepeat > repeat {
				repeat = pr.hs.ReplayRepeat
			}
		}
		dir := filepath.Join(replayRoot, strings.ReplaceAll(strings.TrimPrefix(p, repoMod+"/"), "/", "_"))
		res, text, err := replayBatch(dir, p, pkgName[p], harnessNamesByPkg[p], cases, race, repeat, ovPaths)
		if err != nil {
			inconclusive = append(inconclusive, "replay of "+p+" failed: "+err.Error()+"\n"+tail(text, 30))
			continue
		}
		for _, pr := range list {
			r := res[pr.c.ID]
			modelPath := filepath.Join(dir, pr.c.ID+".model.json")
			if r == nil || !r.Ran {
				inconclusive = append(inconclusive, "replay "+pr.c.ID+" did not run")
				continue
			}
			switch pr.kind {
			case "witness":
				if r.AssumeFail || r.Panic != "" || len(r.AssertFails) > 0 {
					inconclusive = append(inconclusive, fmt.Sprintf("ENGINE-MISMATCH witness %s of %s does not replay cleanly (assumeFail=%v panic=%q assertFails=%v) model=%s", pr.c.ID, pr.c.Harness, r.AssumeFail, r.Panic, r.AssertFails, modelPath))
					continue
				}
				ok := true
				for k, want := range pr.c.Notes {
					if got, has := r.Notes[k]; has && got != want {
						ok = false
						noteMismatch++
						inconclusive = append(inconclusive, fmt.Sprintf("ENGINE-MISMATCH note %s: encoding predicted %s, real code gave %s (harness %s, model %s)", k, want, got, pr.c.Harness, modelPath))
					}
				}
				if ok {
					validated++
				}
			case "violation", "known":
				reproduced := r.Panic != "" && pr.v.Kind == "panic"
				if pr.v.Kind == "race" && strings.Contains(r.Raw, "DATA RACE") {
					reproduced = true
				}
				for _, l := range r.AssertFails {
					if l == pr.v.Label {
						reproduced = true
					}
				}
				if pr.v.Kind == "panic" && r.Panic == "" {
					reproduced = false
				}
				if !reproduced {
					inconclusive = append(inconclusive, fmt.Sprintf("ENGINE-MISMATCH counterexample for %s/%s does not reproduce on the real code (model %s)", pr.c.Harness, pr.v.Label, modelPath))
					continue
				}
				if pr.kind == "known" {
					knownLines = append(knownLines, fmt.Sprintf("KNOWN-FINDING: property=%s %s [%s/%s] replay=%s", id, pr.kf.What, pr.c.Harness, pr.v.Label, modelPath))
				} else {
					violationLines = append(violationLines, fmt.Sprintf("VIOLATION property=%s replay=%s", id, modelPath))
					fmt.Printf("  violated obligation: %s / %s %s\n", pr.c.Harness, pr.v.Label, pr.v.Detail)
					b, _ := json.Marshal(pr.v.Model)
					fmt.Printf("  inputs: %s\n", truncate(string(b), 2000))
				}
			}
		}
	}
	replayTime := time.Since(replayStart)

	// ---- evidence ----
	wall := time.Since(start)
	if *only == "" {
		writeEvidence(id, tier, seed, ps, L, runs, validated, len(violationLines), wall, loadTime, replayTime, inconclusive, knownLines)
	}
	for _, l := range knownLines {
		fmt.Println(l)
	}
	if len(violationLines) > 0 {
		for _, l := range violationLines {
			fmt.Println(l)
		}
		exit = 1
	} else if len(inconclusive) > 0 {
		sort.Strings(inconclusive)
		for _, l := range inconclusive {
			fmt.Println("INCONCLUSIVE property=" + id + " " + l)
		}
		exit = 2
	}
	tot := struct {
		paths, q int
		st       time.Duration
	}{}
	nob := 0
	for _, r := range runs {
		tot.paths += r.Paths
		tot.q += r.Queries
		tot.st += r.SolveTime
		for _, n := range r.AssertsChecked {
			nob += n
		}
	}
	status := "HELD"
	if exit == 1 {
		status = "VIOLATED"
	} else if exit == 2 {
		status = "INCONCLUSIVE"
	}
	fmt.Printf("%s property=%s tier=%s harnesses=%d paths=%d obligations_discharged=%d queries=%d solver_time=%.1fs replays_validated=%d wall=%.1fs\n",
		status, id, tier, len(runs), tot.paths, nob, tot.q, tot.st.Seconds(), validated, wall.Seconds())
	os.Exit(exit)
}

func tail(s string, n int) string {
	lines := strings.Split(strings.TrimSpace(s), "\n")
	if len(lines) > n {
		lines = lines[len(lines)-n:]
	}
	return strings.Join(lines, "\n")
}

func truncate(s string, n int) string {
	if len(s) > n {
		return s[:n] + "..."
	}
	return s
}

func writeEvidence(id, tier string, seed int, ps *PropSpec, L *Loaded, runs []*HarnessRun, validated, violations int, wall, loadTime, replayTime time.Duration, inconclusive, known []string) {
	states, transitions := 0, 0
	q := map[string]int{"sat": 0, "unsat": 0, "unknown": 0}
	var solverTime float64
	funcs := map[string]bool{}
	var samples []interface{}
	obligations := map[string]map[string]int{}
	discharged := 0
	trivial := 0
	var hsum []map[string]interface{}
	for _, r := range runs {
		states += r.Paths
		transitions += int(r.Branches + r.StoreOps + r.Steps)
		q["sat"] += r.Sat
		q["unsat"] += r.Unsat
		q["unknown"] += r.Unknown
		solverTime += r.SolveTime.Seconds()
		for f := range r.Funcs {
			if strings.Contains(f, repoMod) && !strings.Contains(f, "VH_") && !strings.Contains(f, "zzverif") && !strings.Contains(f, "$") {
				funcs[f] = true
			}
		}
		for i, w := range r.Witnesses {
			if i >= 2 {
				break
			}
			samples = append(samples, map[string]interface{}{"harness": r.Name, "reach": w.Label, "inputs": compactModel(w.Model), "predicted": w.Notes})
		}
		ob := map[string]int{}
		for k, n := range r.AssertsChecked {
			ob[k] += n
			discharged += n
		}
		for k, n := range r.AssertsTrivial {
			trivial += n
			if _, ok := ob[k]; !ok {
				ob[k] = 0
			}
		}
		obligations[r.Name] = ob
		hsum = append(hsum, map[string]interface{}{"harness": r.Name, "paths": r.Paths, "completed": r.Completed, "branch_decisions": r.Branches, "store_ops": r.StoreOps,
			"ssa_instructions": r.Steps, "queries": r.Queries, "solver_s": round2(r.SolveTime.Seconds()), "wall_s": round2(r.Wall.Seconds()),
			"assert_labels_discharged_by_solver": r.AssertsChecked, "assert_labels_constant_true": r.AssertsTrivial, "reach_labels": r.Reached, "caught_panics": len(r.Panics)})
	}
	cross := map[string]interface{}{}
	crossN := 0
	agree, unk := map[string]int{}, map[string]int{}
	for _, r := range runs {
		crossN += r.CrossChecked
		for k, n := range r.CrossAgree {
			agree[k] += n
		}
		for k, n := range r.CrossUnknown {
			unk[k] += n
		}
	}
	cross["obligations_rechecked"] = crossN
	cross["agreed_unsat"] = agree
	cross["secondary_unknown"] = unk
	depg := map[string]bool{}
	for _, r := range runs {
		for g := range r.DepGlobals {
			depg[g] = true
		}
	}
	var depgl []string
	for g := range depg {
		depgl = append(depgl, g)
	}
	sort.Strings(depgl)
	var fl []string
	for f := range funcs {
		fl = append(fl, f)
	}
	sort.Strings(fl)
	if len(samples) == 0 {
		samples = append(samples, "no reach witness produced")
	}
	if states == 0 {
		states = 1
	}
	if transitions == 0 {
		transitions = 1
	}
	ev := map[string]interface{}{
		"property_id": id,
		"tier":        tier,
		"seed":        seed,
		"level":       "model_checking",
		"wall_s":      round2(wall.Seconds()),
		"violations":  violations,
		"assumptions": append(append([]string{}, ps.Assumptions...), prefixAll("stub: ", ps.Stubs)...),
		"coverage": map[string]interface{}{
			"states":                        states,
			"transitions":                   transitions,
			"traces_validated_against_impl": validated,
			"samples":                       samples,
			"exhaustive":                    false,
			"explanation":                   "bounded symbolic execution of the Go SSA of the listed functions (regenerated from /repo on this run); states = symbolic paths explored, transitions = SSA instructions + branch decisions + store operations executed; every assertion is decided by an SMT query over all input values within the stated bounds",
			"functions_encoded":             fl,
			"bounds":                        ps.Bounds,
			"arith_mode":                    ps.ArithMode,
			"queries":                       q,
			"obligations_discharged":        discharged,
			"obligations_constant_true":     trivial,
			"solver_time_s":                 round2(solverTime),
			"solvers":                       []string{solverVersion(defaultSolver()), "cross-check of a sample of discharged obligations: " + solverVersion("z3") + ", " + solverVersion("cvc5")},
			"stubs":                         ps.Stubs,
			"outside_claim":                 ps.Outside,
			"harnesses":                     hsum,
			"load_s":                        round2(loadTime.Seconds()),
			"replay_s":                      round2(replayTime.Seconds()),
			"inconclusive":                  inconclusive,
			"known_findings_reported":       known,
			"source_files_loaded":           len(L.Files),
			"dependency_globals_read_with_default_value": depgl,
			"cross_solver_recheck":                      cross,
		},
	}
	b, _ := json.MarshalIndent(ev, "", " ")
	os.MkdirAll(filepath.Join(outDir(), "evidence"), 0o755)
	os.WriteFile(filepath.Join(outDir(), "evidence", id+".json"), b, 0o644)
}

func prefixAll(p string, ss []string) []string {
	out := make([]string, len(ss))
	for i, s := range ss {
		out[i] = p + s
	}
	return out
}

func round2(f float64) float64 { return float64(int(f*100+0.5)) / 100 }

func compactModel(m map[string]ModelInput) map[string]string {
	out := map[string]string{}
	for k, v := range m {
		out[k] = truncate(v.Val, 80)
	}
	return out
}

func cmdReplay(args []string) {
	if len(args) < 1 {
		fatalf("usage: gosym replay <model.json>")
	}
	model := args[0]
	dir := filepath.Dir(model)
	cmd := fmt.Sprintf("VRT_MODELS=%s /bin/sh %s", model, filepath.Join(dir, "run.sh"))
	fmt.Println(cmd)
	os.Exit(runShell(cmd))
}

func runShell(cmd string) int {
	c := execCommand("/bin/sh", "-c", cmd)
	c.Stdout = os.Stdout
	c.Stderr = os.Stderr
	if err := c.Run(); err != nil {
		return 1
	}
	return 0
}

var execCommand = osexec.Command

func solverVersion(kind string) string {
	bin := kind
	out, err := osexec.Command(bin, "--version").Output()
	if err != nil {
		return kind
	}
	return kind + ": " + strings.TrimSpace(strings.Split(string(out), "\n")[0]) + " (one incremental process per worker)"
}
