package main

import (
	"fmt"
	"os"
	"path/filepath"
	"sort"
	"strings"

	"golang.org/x/tools/go/packages"
	"golang.org/x/tools/go/ssa"
	"golang.org/x/tools/go/ssa/ssautil"
)

const repoMod = "github.com/goatnetwork/goat"

// extra root packages whose bodies we want to execute from SSA
var extraRoots = []string{
	"github.com/kelindar/bitmap",
	"slices",
	"bytes",
	"strings",
	"encoding/binary",
	"github.com/ethereum/go-ethereum/core/types/goattypes",
}

type Loaded struct {
	Prog  *ssa.Program
	Pkgs  map[string]*ssa.Package
	Roots []*packages.Package
	Files []string // source files (of repo packages) that were loaded, for evidence
	roots map[string]bool
}

// buildOverlay maps harness files under verifDir/harness/<rel>/zz_*.go and the vrt
// runtime into virtual paths under repoDir.
func buildOverlay(repoDir, verifDir string) (map[string][]byte, map[string]string, error) {
	ov := map[string][]byte{}
	paths := map[string]string{}
	add := func(virtual, real string) error {
		b, err := os.ReadFile(real)
		if err != nil {
			return err
		}
		ov[virtual] = b
		paths[virtual] = real
		return nil
	}
	hroot := filepath.Join(verifDir, "harness")
	err := filepath.Walk(hroot, func(p string, info os.FileInfo, err error) error {
		if err != nil || info.IsDir() || !strings.HasSuffix(p, ".go") {
			return nil
		}
		if strings.HasSuffix(p, "_test.go") {
			return nil
		}
		rel, _ := filepath.Rel(hroot, p)
		return add(filepath.Join(repoDir, rel), p)
	})
	if err != nil {
		return nil, nil, err
	}
	vroot := filepath.Join(verifDir, "vrt")
	ents, _ := os.ReadDir(vroot)
	for _, en := range ents {
		if strings.HasSuffix(en.Name(), ".go") && !strings.HasSuffix(en.Name(), "_test.go") {
			if err := add(filepath.Join(repoDir, "zzverif", "vrt", en.Name()), filepath.Join(vroot, en.Name())); err != nil {
				return nil, nil, err
			}
		}
	}
	return ov, paths, nil
}

func loadProgram(repoDir string, overlay map[string][]byte, roots []string) (*Loaded, error) {
	cfg := &packages.Config{
		Mode:    packages.LoadSyntax,
		Dir:     repoDir,
		Overlay: overlay,
		Env:     append(os.Environ(), "GOFLAGS=-mod=mod", "GOPROXY=off", "GOSUMDB=off", "GOTOOLCHAIN=local"),
	}
	pats := append([]string{}, roots...)
	pats = append(pats, extraRoots...)
	pkgs, err := packages.Load(cfg, pats...)
	if err != nil {
		return nil, err
	}
	nerr := 0
	for _, p := range pkgs {
		for _, e := range p.Errors {
			fmt.Fprintln(os.Stderr, "LOAD ERROR:", p.PkgPath, e)
			nerr++
		}
	}
	if nerr > 0 {
		return nil, fmt.Errorf("%d package load errors", nerr)
	}
	prog, spkgs := ssautil.Packages(pkgs, ssa.InstantiateGenerics)
	prog.Build()
	l := &Loaded{Prog: prog, Pkgs: map[string]*ssa.Package{}, Roots: pkgs}
	for i, sp := range spkgs {
		if sp != nil {
			l.Pkgs[pkgs[i].PkgPath] = sp
		}
		if strings.HasPrefix(pkgs[i].PkgPath, repoMod) {
			for _, f := range pkgs[i].CompiledGoFiles {
				l.Files = append(l.Files, f)
			}
		}
	}
	sort.Strings(l.Files)
	return l, nil
}

// funcKey: canonical name used for intrinsic dispatch.
func funcKey(fn *ssa.Function) string {
	if o := fn.Origin(); o != nil {
		return o.String()
	}
	return fn.String()
}

// rootsFor: the harness packages plus every hand-written package of the repository the
// code under test can call into (their function bodies must be available as SSA).
func rootsFor(harnessPkgs []string) []string {
	set := map[string]bool{vrtPkg: true}
	for _, p := range []string{"/pkg/crypto", "/x/bitcoin/types", "/x/bitcoin/keeper", "/x/relayer/types", "/x/relayer/keeper",
		"/x/locking/types", "/x/locking/keeper", "/x/goat/types", "/x/goat/keeper"} {
		set[repoMod+p] = true
	}
	for _, p := range harnessPkgs {
		set[p] = true
	}
	var out []string
	for p := range set {
		out = append(out, p)
	}
	sort.Strings(out)
	return out
}
