package main

// cosmossdk.io/math.Int, LegacyDec and math/big.Int as unbounded SMT integers.
// Contract read from cosmossdk.io/math v1.4.0: Quo truncates toward zero and panics on
// a zero divisor; LegacyDec is an integer scaled by 10^18; Mul and Quo round half-even
// on the chopped 18 digits, MulTruncate/TruncateInt truncate toward zero.
// Overflow beyond 256 (Int) / 315 (Dec) bits panics in the library; the engine assumes
// all amounts stay below those limits (stated bound: inputs < 2^128) unless
// Cfg.CheckIntOverflow is set.

import (
	"math/big"

	"golang.org/x/tools/go/ssa"
)

var prec18 = new(big.Int).Exp(big.NewInt(10), big.NewInt(18), nil)
var prec36 = new(big.Int).Mul(prec18, prec18)
var half18 = new(big.Int).Div(prec18, big.NewInt(2))

func iAbs(a *Term) *Term {
	if a.IsConst() {
		return IntC(new(big.Int).Abs(a.C))
	}
	return Ite(IGe(a, IntI(0)), a, INeg(a))
}

// truncated division (Go / big.Int.Quo semantics); b != 0 must have been established
func truncQuo(a, b *Term) *Term {
	if a.IsConst() && b.IsConst() && b.C.Sign() != 0 {
		return IntC(new(big.Int).Quo(a.C, b.C))
	}
	// fast path: b positive constant
	if b.IsConst() && b.C.Sign() > 0 {
		return Ite(IGe(a, IntI(0)), IDiv(a, b), INeg(IDiv(INeg(a), b)))
	}
	q := IDiv(iAbs(a), iAbs(b))
	sameSign := Eq(IGe(a, IntI(0)), IGe(b, IntI(0)))
	return Ite(sameSign, q, INeg(q))
}

func truncRem(a, b *Term) *Term {
	return ISub(a, IMul(truncQuo(a, b), b))
}

// chopPrecisionAndRound: divide by 10^18 with banker's rounding
func chopRound(x *Term) *Term {
	if x.IsConst() {
		neg := x.C.Sign() < 0
		d := new(big.Int).Abs(x.C)
		quo, rem := new(big.Int).QuoRem(d, prec18, new(big.Int))
		switch rem.Cmp(half18) {
		case 1:
			quo.Add(quo, bigOne)
		case 0:
			if quo.Bit(0) == 1 {
				quo.Add(quo, bigOne)
			}
		}
		if neg {
			quo.Neg(quo)
		}
		return IntC(quo)
	}
	p := IntC(prec18)
	ax := iAbs(x)
	quo := IDiv(ax, p)
	rem := IMod(ax, p)
	h := IntC(half18)
	up := Or(IGt(rem, h), And(Eq(rem, h), Eq(IMod(quo, IntI(2)), IntI(1))))
	r := Ite(up, IAdd(quo, IntI(1)), quo)
	return Ite(IGe(x, IntI(0)), r, INeg(r))
}

func chopTrunc(x *Term) *Term { return truncQuo(x, IntC(prec18)) }

func bigOf(v Value) BigV {
	switch x := v.(type) {
	case BigV:
		return x
	case PtrV:
		if x.IsNil() {
			panic(&GoPanic{Msg: "nil *big.Int dereference"})
		}
		b, ok := loadPtr(x).(BigV)
		if !ok {
			panic(abortf("ENGINE expected *big.Int"))
		}
		return b
	}
	panic(abortf("ENGINE expected big integer, got %T", v))
}

func intOf(v Value) *Term {
	b := bigOf(v)
	if b.Nil {
		panic(&GoPanic{Msg: "nil math.Int dereference"})
	}
	return b.T
}

func decOf(v Value) *Term {
	d, ok := v.(DecV)
	if !ok {
		panic(abortf("ENGINE expected LegacyDec, got %T", v))
	}
	if d.Nil {
		panic(&GoPanic{Msg: "nil LegacyDec dereference"})
	}
	return d.T
}

func (e *Exec) newBigPtr(t *Term) PtrV { return PtrV{C: e.newCell(BigV{T: t})} }

func (e *Exec) checkDivZero(b *Term, what string) {
	if e.branch(Eq(b, IntI(0))) {
		panic(&GoPanic{Msg: what + ": division by zero"})
	}
}

var two64 = new(big.Int).Lsh(bigOne, 64)
var two256 = new(big.Int).Lsh(bigOne, 256)

func (e *Exec) intOverflowCheck(t *Term) {
	if !e.Cfg.CheckIntOverflow {
		return
	}
	lim := IntC(two256)
	if e.branch(Or(IGe(t, lim), ILe(t, INeg(lim)))) {
		panic(&GoPanic{Msg: "Int overflow"})
	}
}

func init() {
	I := intrinsics
	const M = "cosmossdk.io/math"
	mi := func(name string, f func(e *Exec, a []Value) Value) {
		I["("+M+".Int)."+name] = func(e *Exec, fn *ssa.Function, a []Value) Value { return f(e, a) }
	}
	I[M+".ZeroInt"] = func(e *Exec, fn *ssa.Function, a []Value) Value { return BigV{T: IntI(0)} }
	I[M+".OneInt"] = func(e *Exec, fn *ssa.Function, a []Value) Value { return BigV{T: IntI(1)} }
	I[M+".NewInt"] = func(e *Exec, fn *ssa.Function, a []Value) Value { return BigV{T: BV2Int(a[0].(*Term))} }
	I[M+".NewIntFromUint64"] = func(e *Exec, fn *ssa.Function, a []Value) Value { return BigV{T: BV2Nat(a[0].(*Term))} }
	fromBig := func(e *Exec, fn *ssa.Function, a []Value) Value {
		p := a[0].(PtrV)
		if p.IsNil() {
			return BigV{Nil: true, T: IntI(0)}
		}
		t := bigOf(p).T
		e.intOverflowCheck(t)
		return BigV{T: t}
	}
	I[M+".NewIntFromBigInt"] = fromBig
	I[M+".NewIntFromBigIntMut"] = fromBig
	mi("BigInt", func(e *Exec, a []Value) Value {
		b := bigOf(a[0])
		if b.Nil {
			return PtrV{}
		}
		return e.newBigPtr(b.T)
	})
	mi("BigIntMut", func(e *Exec, a []Value) Value {
		b := bigOf(a[0])
		if b.Nil {
			return PtrV{}
		}
		return e.newBigPtr(b.T)
	})
	mi("IsNil", func(e *Exec, a []Value) Value { return BoolC(bigOf(a[0]).Nil) })
	mi("IsZero", func(e *Exec, a []Value) Value { return Eq(intOf(a[0]), IntI(0)) })
	mi("IsNegative", func(e *Exec, a []Value) Value { return ILt(intOf(a[0]), IntI(0)) })
	mi("IsPositive", func(e *Exec, a []Value) Value { return IGt(intOf(a[0]), IntI(0)) })
	mi("Sign", func(e *Exec, a []Value) Value {
		t := intOf(a[0])
		return Ite(IGt(t, IntI(0)), BVI(64, 1), Ite(Eq(t, IntI(0)), BVI(64, 0), BVI(64, -1)))
	})
	mi("IsUint64", func(e *Exec, a []Value) Value {
		t := intOf(a[0])
		return And(IGe(t, IntI(0)), ILt(t, IntC(two64)))
	})
	mi("IsInt64", func(e *Exec, a []Value) Value {
		t := intOf(a[0])
		lim := IntC(new(big.Int).Lsh(bigOne, 63))
		return And(IGe(t, INeg(lim)), ILt(t, lim))
	})
	mi("Uint64", func(e *Exec, a []Value) Value {
		t := intOf(a[0])
		if !e.branch(And(IGe(t, IntI(0)), ILt(t, IntC(two64)))) {
			panic(&GoPanic{Msg: "Uint64() out of bounds"})
		}
		// on the rest of this path the value is known to lie in [0, 2^64): flag a copy of the
		// term so that later arithmetic and comparisons on the result stay in the integer theory
		return Int2BV(64, e.knownNat(64, t))
	})
	mi("Int64", func(e *Exec, a []Value) Value {
		t := intOf(a[0])
		lim := IntC(new(big.Int).Lsh(bigOne, 63))
		if !e.branch(And(IGe(t, INeg(lim)), ILt(t, lim))) {
			panic(&GoPanic{Msg: "Int64() out of bound"})
		}
		return Int2BV(64, t)
	})
	bin := func(name string, f func(e *Exec, x, y *Term) *Term) {
		mi(name, func(e *Exec, a []Value) Value {
			r := f(e, intOf(a[0]), intOf(a[1]))
			e.intOverflowCheck(r)
			return BigV{T: r}
		})
	}
	bin("Add", func(e *Exec, x, y *Term) *Term { return IAdd(x, y) })
	bin("Sub", func(e *Exec, x, y *Term) *Term { return ISub(x, y) })
	bin("Mul", func(e *Exec, x, y *Term) *Term { return IMul(x, y) })
	bin("Quo", func(e *Exec, x, y *Term) *Term {
		e.checkDivZero(y, "math.Int.Quo")
		return truncQuo(x, y)
	})
	bin("Mod", func(e *Exec, x, y *Term) *Term {
		e.checkDivZero(y, "math.Int.Mod")
		return IMod(x, iAbs(y))
	})
	mi("AddRaw", func(e *Exec, a []Value) Value { return BigV{T: IAdd(intOf(a[0]), BV2Int(a[1].(*Term)))} })
	mi("SubRaw", func(e *Exec, a []Value) Value { return BigV{T: ISub(intOf(a[0]), BV2Int(a[1].(*Term)))} })
	mi("MulRaw", func(e *Exec, a []Value) Value { return BigV{T: IMul(intOf(a[0]), BV2Int(a[1].(*Term)))} })
	mi("QuoRaw", func(e *Exec, a []Value) Value {
		y := BV2Int(a[1].(*Term))
		e.checkDivZero(y, "math.Int.QuoRaw")
		return BigV{T: truncQuo(intOf(a[0]), y)}
	})
	mi("Neg", func(e *Exec, a []Value) Value { return BigV{T: INeg(intOf(a[0]))} })
	mi("Abs", func(e *Exec, a []Value) Value { return BigV{T: iAbs(intOf(a[0]))} })
	cmp := func(name string, f func(x, y *Term) *Term) {
		mi(name, func(e *Exec, a []Value) Value { return f(intOf(a[0]), intOf(a[1])) })
	}
	cmp("Equal", Eq)
	cmp("LT", ILt)
	cmp("LTE", ILe)
	cmp("GT", IGt)
	cmp("GTE", IGe)
	mi("String", func(e *Exec, a []Value) Value {
		b := bigOf(a[0])
		if !b.Nil && b.T.IsConst() {
			return StrV{S: b.T.C.String()}
		}
		return StrV{S: "<int>"}
	})
	I[M+".MinInt"] = func(e *Exec, fn *ssa.Function, a []Value) Value {
		x, y := intOf(a[0]), intOf(a[1])
		return BigV{T: Ite(ILt(x, y), x, y)}
	}
	I[M+".MaxInt"] = func(e *Exec, fn *ssa.Function, a []Value) Value {
		x, y := intOf(a[0]), intOf(a[1])
		return BigV{T: Ite(ILt(x, y), y, x)}
	}

	// ----- LegacyDec -----
	md := func(name string, f func(e *Exec, a []Value) Value) {
		I["("+M+".LegacyDec)."+name] = func(e *Exec, fn *ssa.Function, a []Value) Value { return f(e, a) }
	}
	P := IntC(prec18)
	I[M+".LegacyNewDec"] = func(e *Exec, fn *ssa.Function, a []Value) Value { return DecV{T: IMul(BV2Int(a[0].(*Term)), P)} }
	I[M+".LegacyNewDecFromInt"] = func(e *Exec, fn *ssa.Function, a []Value) Value { return DecV{T: IMul(intOf(a[0]), P)} }
	I[M+".LegacyNewDecFromBigInt"] = func(e *Exec, fn *ssa.Function, a []Value) Value { return DecV{T: IMul(intOf(a[0]), P)} }
	I[M+".LegacyNewDecWithPrec"] = func(e *Exec, fn *ssa.Function, a []Value) Value {
		prec := e.concreteInt(a[1], "LegacyNewDecWithPrec precision")
		if prec < 0 || prec > 18 {
			panic(&GoPanic{Msg: "too much precision"})
		}
		scale := new(big.Int).Exp(big.NewInt(10), big.NewInt(int64(18-prec)), nil)
		return DecV{T: IMul(BV2Int(a[0].(*Term)), IntC(scale))}
	}
	I[M+".LegacyZeroDec"] = func(e *Exec, fn *ssa.Function, a []Value) Value { return DecV{T: IntI(0)} }
	I[M+".LegacyOneDec"] = func(e *Exec, fn *ssa.Function, a []Value) Value { return DecV{T: P} }
	md("IsNil", func(e *Exec, a []Value) Value { return BoolC(a[0].(DecV).Nil) })
	md("IsZero", func(e *Exec, a []Value) Value { return Eq(decOf(a[0]), IntI(0)) })
	md("IsNegative", func(e *Exec, a []Value) Value { return ILt(decOf(a[0]), IntI(0)) })
	md("IsPositive", func(e *Exec, a []Value) Value { return IGt(decOf(a[0]), IntI(0)) })
	md("GTE", func(e *Exec, a []Value) Value { return IGe(decOf(a[0]), decOf(a[1])) })
	md("GT", func(e *Exec, a []Value) Value { return IGt(decOf(a[0]), decOf(a[1])) })
	md("LTE", func(e *Exec, a []Value) Value { return ILe(decOf(a[0]), decOf(a[1])) })
	md("LT", func(e *Exec, a []Value) Value { return ILt(decOf(a[0]), decOf(a[1])) })
	md("Equal", func(e *Exec, a []Value) Value { return Eq(decOf(a[0]), decOf(a[1])) })
	md("Add", func(e *Exec, a []Value) Value { return DecV{T: IAdd(decOf(a[0]), decOf(a[1]))} })
	md("Sub", func(e *Exec, a []Value) Value { return DecV{T: ISub(decOf(a[0]), decOf(a[1]))} })
	md("Mul", func(e *Exec, a []Value) Value { return DecV{T: chopRound(IMul(decOf(a[0]), decOf(a[1])))} })
	md("MulTruncate", func(e *Exec, a []Value) Value { return DecV{T: chopTrunc(IMul(decOf(a[0]), decOf(a[1])))} })
	md("MulInt", func(e *Exec, a []Value) Value { return DecV{T: IMul(decOf(a[0]), intOf(a[1]))} })
	md("Quo", func(e *Exec, a []Value) Value {
		y := decOf(a[1])
		e.checkDivZero(y, "LegacyDec.Quo")
		return DecV{T: chopRound(truncQuo(IMul(decOf(a[0]), IntC(prec36)), y))}
	})
	md("QuoTruncate", func(e *Exec, a []Value) Value {
		y := decOf(a[1])
		e.checkDivZero(y, "LegacyDec.QuoTruncate")
		return DecV{T: chopTrunc(truncQuo(IMul(decOf(a[0]), IntC(prec36)), y))}
	})
	md("QuoInt", func(e *Exec, a []Value) Value {
		y := intOf(a[1])
		e.checkDivZero(y, "LegacyDec.QuoInt")
		return DecV{T: truncQuo(decOf(a[0]), y)}
	})
	md("TruncateInt", func(e *Exec, a []Value) Value { return BigV{T: chopTrunc(decOf(a[0]))} })
	md("RoundInt", func(e *Exec, a []Value) Value { return BigV{T: chopRound(decOf(a[0]))} })
	md("String", func(e *Exec, a []Value) Value { return StrV{S: "<dec>"} })
	md("Neg", func(e *Exec, a []Value) Value { return DecV{T: INeg(decOf(a[0]))} })

	// ----- math/big -----
	const B = "(*math/big.Int)."
	I["math/big.NewInt"] = func(e *Exec, fn *ssa.Function, a []Value) Value { return e.newBigPtr(BV2Int(a[0].(*Term))) }
	setRecv := func(e *Exec, recv Value, t *Term) Value {
		p := recv.(PtrV)
		if p.IsNil() {
			panic(&GoPanic{Msg: "nil *big.Int receiver"})
		}
		storePtr(p, BigV{T: t})
		return p
	}
	I[B+"SetUint64"] = func(e *Exec, fn *ssa.Function, a []Value) Value { return setRecv(e, a[0], BV2Nat(a[1].(*Term))) }
	I[B+"SetInt64"] = func(e *Exec, fn *ssa.Function, a []Value) Value { return setRecv(e, a[0], BV2Int(a[1].(*Term))) }
	I[B+"Set"] = func(e *Exec, fn *ssa.Function, a []Value) Value { return setRecv(e, a[0], bigOf(a[1]).T) }
	I[B+"SetBytes"] = func(e *Exec, fn *ssa.Function, a []Value) Value {
		bs := sliceTerms(a[1])
		if len(bs) == 0 {
			return setRecv(e, a[0], IntI(0))
		}
		return setRecv(e, a[0], BV2Nat(joinBytes(bs)))
	}
	bb := func(name string, f func(e *Exec, x, y *Term) *Term) {
		I[B+name] = func(e *Exec, fn *ssa.Function, a []Value) Value {
			return setRecv(e, a[0], f(e, bigOf(a[1]).T, bigOf(a[2]).T))
		}
	}
	bb("Add", func(e *Exec, x, y *Term) *Term { return IAdd(x, y) })
	bb("Sub", func(e *Exec, x, y *Term) *Term { return ISub(x, y) })
	bb("Mul", func(e *Exec, x, y *Term) *Term { return IMul(x, y) })
	bb("Div", func(e *Exec, x, y *Term) *Term { // Euclidean
		e.checkDivZero(y, "big.Int.Div")
		return IDiv(x, y)
	})
	bb("Mod", func(e *Exec, x, y *Term) *Term {
		e.checkDivZero(y, "big.Int.Mod")
		return IMod(x, y)
	})
	bb("Quo", func(e *Exec, x, y *Term) *Term {
		e.checkDivZero(y, "big.Int.Quo")
		return truncQuo(x, y)
	})
	bb("Rem", func(e *Exec, x, y *Term) *Term {
		e.checkDivZero(y, "big.Int.Rem")
		return truncRem(x, y)
	})
	I[B+"Exp"] = func(e *Exec, fn *ssa.Function, a []Value) Value {
		x, y := bigOf(a[1]).T, bigOf(a[2]).T
		if !x.IsConst() || !y.IsConst() {
			panic(abortf("UNSUPPORTED symbolic big.Int.Exp"))
		}
		var m *big.Int
		if mp := a[3].(PtrV); !mp.IsNil() {
			mt := bigOf(mp).T
			if !mt.IsConst() {
				panic(abortf("UNSUPPORTED symbolic modulus in big.Int.Exp"))
			}
			m = mt.C
		}
		return setRecv(e, a[0], IntC(new(big.Int).Exp(x.C, y.C, m)))
	}
	I[B+"Rsh"] = func(e *Exec, fn *ssa.Function, a []Value) Value {
		n := e.concreteInt(a[2], "big.Int.Rsh count")
		return setRecv(e, a[0], IDiv(bigOf(a[1]).T, IntC(new(big.Int).Lsh(bigOne, uint(n)))))
	}
	I[B+"Lsh"] = func(e *Exec, fn *ssa.Function, a []Value) Value {
		n := e.concreteInt(a[2], "big.Int.Lsh count")
		return setRecv(e, a[0], IMul(bigOf(a[1]).T, IntC(new(big.Int).Lsh(bigOne, uint(n)))))
	}
	I[B+"Neg"] = func(e *Exec, fn *ssa.Function, a []Value) Value { return setRecv(e, a[0], INeg(bigOf(a[1]).T)) }
	I[B+"Abs"] = func(e *Exec, fn *ssa.Function, a []Value) Value { return setRecv(e, a[0], iAbs(bigOf(a[1]).T)) }
	I[B+"Cmp"] = func(e *Exec, fn *ssa.Function, a []Value) Value {
		x, y := bigOf(a[0]).T, bigOf(a[1]).T
		return Ite(ILt(x, y), BVI(64, -1), Ite(Eq(x, y), BVI(64, 0), BVI(64, 1)))
	}
	I[B+"Sign"] = func(e *Exec, fn *ssa.Function, a []Value) Value {
		x := bigOf(a[0]).T
		return Ite(ILt(x, IntI(0)), BVI(64, -1), Ite(Eq(x, IntI(0)), BVI(64, 0), BVI(64, 1)))
	}
	I[B+"Int64"] = func(e *Exec, fn *ssa.Function, a []Value) Value { return Int2BV(64, bigOf(a[0]).T) }
	I[B+"Uint64"] = func(e *Exec, fn *ssa.Function, a []Value) Value { return Int2BV(64, e.knownNat(64, bigOf(a[0]).T)) }
	I[B+"IsUint64"] = func(e *Exec, fn *ssa.Function, a []Value) Value {
		t := bigOf(a[0]).T
		return And(IGe(t, IntI(0)), ILt(t, IntC(two64)))
	}
	I[B+"IsInt64"] = func(e *Exec, fn *ssa.Function, a []Value) Value {
		t := bigOf(a[0]).T
		lim := IntC(new(big.Int).Lsh(bigOne, 63))
		return And(IGe(t, INeg(lim)), ILt(t, lim))
	}
	I[B+"BitLen"] = func(e *Exec, fn *ssa.Function, a []Value) Value {
		t := bigOf(a[0]).T
		if t.IsConst() {
			return BVI(64, int64(t.C.BitLen()))
		}
		panic(abortf("UNSUPPORTED symbolic big.Int.BitLen"))
	}
	I[B+"String"] = func(e *Exec, fn *ssa.Function, a []Value) Value {
		p := a[0].(PtrV)
		if p.IsNil() {
			return StrV{S: "<nil>"}
		}
		t := bigOf(p).T
		if t.IsConst() {
			return StrV{S: t.C.String()}
		}
		return StrV{S: "<big>"}
	}
	I[B+"Bytes"] = func(e *Exec, fn *ssa.Function, a []Value) Value {
		t := bigOf(a[0]).T
		if t.IsConst() {
			raw := new(big.Int).Abs(t.C).Bytes()
			bs := make([]*Term, len(raw))
			for i, b := range raw {
				bs[i] = BVU(8, uint64(b))
			}
			return mkByteSliceOrNil(bs)
		}
		panic(abortf("UNSUPPORTED symbolic big.Int.Bytes (length depends on value)"))
	}
	I[B+"FillBytes"] = func(e *Exec, fn *ssa.Function, a []Value) Value {
		t := bigOf(a[0]).T
		buf := a[1].(SliceV)
		n := buf.Len
		bv := Int2BV(8*n, t)
		for i, b := range splitBytes(bv) {
			buf.A.E[buf.Off+i] = b
		}
		return buf
	}
}
