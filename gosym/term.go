package main

// Terms: a small SMT term language with aggressive constant folding so that
// concrete execution stays concrete and only genuinely symbolic data reaches
// the solver.

import (
	"fmt"
	"math/big"
	"strings"
)

type SortKind int

const (
	SBool SortKind = iota
	SBV
	SInt
	SReal
)

type Sort struct {
	K SortKind
	W int
}

func (s Sort) String() string {
	switch s.K {
	case SBool:
		return "Bool"
	case SBV:
		return fmt.Sprintf("(_ BitVec %d)", s.W)
	case SInt:
		return "Int"
	case SReal:
		return "Real"
	}
	return "?"
}

var BoolSort = Sort{K: SBool}
var IntSort = Sort{K: SInt}
var RealSort = Sort{K: SReal}

func BVSort(w int) Sort { return Sort{K: SBV, W: w} }

type Term struct {
	Op   string // "const", "var", or SMT operator name; "extract", "zext", "sext", "uf", "int2bv"
	S    Sort
	Args []*Term
	C    *big.Int // constant payload for BV / Int (BV: in [0,2^w)); Real consts: C / D
	D    *big.Int // denominator for real constants (nil => 1)
	B    bool     // constant payload for Bool
	Name string   // variable / UF name
	Hi   int      // extract hi, or target width for zext/sext/int2bv
	Lo   int
	UB   *big.Int // known unsigned upper bound (inclusive) for BV terms, nil = unknown
	NatW int      // Int terms: >0 means the value is known to lie in [0, 2^NatW)
}

func (t *Term) IsConst() bool { return t.Op == "const" }

var tTrue = &Term{Op: "const", S: BoolSort, B: true}
var tFalse = &Term{Op: "const", S: BoolSort, B: false}

func BoolC(b bool) *Term {
	if b {
		return tTrue
	}
	return tFalse
}

var bigOne = big.NewInt(1)

func mask(w int) *big.Int {
	m := new(big.Int).Lsh(bigOne, uint(w))
	return m.Sub(m, bigOne)
}

func BVC(w int, v *big.Int) *Term {
	x := new(big.Int).And(v, mask(w)) // big.Int And on negative: two's complement semantics
	if v.Sign() < 0 {
		x = new(big.Int).Mod(v, new(big.Int).Lsh(bigOne, uint(w)))
	}
	return &Term{Op: "const", S: BVSort(w), C: x}
}

func BVU(w int, v uint64) *Term { return BVC(w, new(big.Int).SetUint64(v)) }
func BVI(w int, v int64) *Term  { return BVC(w, big.NewInt(v)) }

func IntC(v *big.Int) *Term { return &Term{Op: "const", S: IntSort, C: new(big.Int).Set(v)} }
func IntI(v int64) *Term    { return IntC(big.NewInt(v)) }
func RealC(n, d *big.Int) *Term {
	return &Term{Op: "const", S: RealSort, C: new(big.Int).Set(n), D: new(big.Int).Set(d)}
}

func Var(name string, s Sort) *Term { return &Term{Op: "var", S: s, Name: name} }

// signed value of a BV constant
func (t *Term) SVal() *big.Int {
	v := new(big.Int).Set(t.C)
	if t.S.K == SBV && v.Bit(t.S.W-1) == 1 {
		v.Sub(v, new(big.Int).Lsh(bigOne, uint(t.S.W)))
	}
	return v
}

func (t *Term) U64() uint64 { return t.C.Uint64() }
func (t *Term) I64() int64  { return t.SVal().Int64() }

func mk(op string, s Sort, args ...*Term) *Term { return &Term{Op: op, S: s, Args: args} }

// ---------- Bool ----------

func Not(a *Term) *Term {
	if a.IsConst() {
		return BoolC(!a.B)
	}
	if a.Op == "not" {
		return a.Args[0]
	}
	return mk("not", BoolSort, a)
}

func And(as ...*Term) *Term {
	var out []*Term
	for _, a := range as {
		if a.IsConst() {
			if !a.B {
				return tFalse
			}
			continue
		}
		out = append(out, a)
	}
	if len(out) == 0 {
		return tTrue
	}
	if len(out) == 1 {
		return out[0]
	}
	return mk("and", BoolSort, out...)
}

func Or(as ...*Term) *Term {
	var out []*Term
	for _, a := range as {
		if a.IsConst() {
			if a.B {
				return tTrue
			}
			continue
		}
		out = append(out, a)
	}
	if len(out) == 0 {
		return tFalse
	}
	if len(out) == 1 {
		return out[0]
	}
	return mk("or", BoolSort, out...)
}

func Implies(a, b *Term) *Term { return Or(Not(a), b) }

func sameConst(a, b *Term) bool {
	if a.S.K == SBool {
		return a.B == b.B
	}
	if a.S.K == SReal {
		ad, bd := a.D, b.D
		if ad == nil {
			ad = bigOne
		}
		if bd == nil {
			bd = bigOne
		}
		l := new(big.Int).Mul(a.C, bd)
		r := new(big.Int).Mul(b.C, ad)
		return l.Cmp(r) == 0
	}
	return a.C.Cmp(b.C) == 0
}

func Eq(a, b *Term) *Term {
	if a.S != b.S {
		panic(fmt.Sprintf("Eq sort mismatch %v %v (%s / %s)", a.S, b.S, a.Op, b.Op))
	}
	if a == b {
		return tTrue
	}
	if a.IsConst() && b.IsConst() {
		return BoolC(sameConst(a, b))
	}
	if a.S.K == SBool {
		if a.IsConst() {
			if a.B {
				return b
			}
			return Not(b)
		}
		if b.IsConst() {
			if b.B {
				return a
			}
			return Not(a)
		}
	}
	// eq(ite(c, k1, k2), k) with constants folds to c / not c
	if b.IsConst() && a.Op == "ite" && a.Args[1].IsConst() && a.Args[2].IsConst() {
		e1 := sameConst(a.Args[1], b)
		e2 := sameConst(a.Args[2], b)
		switch {
		case e1 && e2:
			return tTrue
		case e1:
			return a.Args[0]
		case e2:
			return Not(a.Args[0])
		default:
			return tFalse
		}
	}
	if a.IsConst() && b.Op == "ite" {
		return Eq(b, a)
	}
	if a.S.K == SBV && (intBacked(a) || intBacked(b)) {
		return mk("=", BoolSort, BV2Nat(a), BV2Nat(b))
	}
	return mk("=", BoolSort, a, b)
}

func Ite(c, a, b *Term) *Term {
	if a.S != b.S {
		panic(fmt.Sprintf("Ite sort mismatch %v %v", a.S, b.S))
	}
	if c.IsConst() {
		if c.B {
			return a
		}
		return b
	}
	if a == b {
		return a
	}
	if a.IsConst() && b.IsConst() && sameConst(a, b) {
		return a
	}
	if a.S.K == SBool {
		if a.IsConst() && b.IsConst() {
			if a.B {
				return c
			}
			return Not(c)
		}
		if a.IsConst() {
			if a.B {
				return Or(c, b)
			}
			return And(Not(c), b)
		}
		if b.IsConst() {
			if b.B {
				return Or(Not(c), a)
			}
			return And(c, a)
		}
	}
	return mk("ite", a.S, c, a, b)
}

// ---------- BV ----------

func bvBin(op string, a, b *Term) *Term {
	if a.S != b.S || a.S.K != SBV {
		panic(fmt.Sprintf("bv %s sort mismatch %v %v", op, a.S, b.S))
	}
	w := a.S.W
	if !(a.IsConst() && b.IsConst()) {
		lift := intBacked(a) || intBacked(b)
		switch op {
		case "bvadd":
			if lift {
				return wrapNat(w, IAdd(BV2Nat(a), BV2Nat(b)))
			}
		case "bvsub":
			if lift {
				return wrapNat(w, IAdd(ISub(BV2Nat(a), BV2Nat(b)), IntC(new(big.Int).Lsh(bigOne, uint(w)))))
			}
		case "bvmul":
			if lift || (LiftMulDiv && w == 64) {
				return wrapNat(w, IMul(BV2Nat(a), BV2Nat(b)))
			}
		case "bvudiv":
			if (lift || (LiftMulDiv && w == 64)) && b.IsConst() && b.C.Sign() > 0 {
				return wrapNat(w, IDiv(BV2Nat(a), BV2Nat(b)))
			}
		case "bvurem":
			if (lift || (LiftMulDiv && w == 64)) && b.IsConst() && b.C.Sign() > 0 {
				return wrapNat(w, IMod(BV2Nat(a), BV2Nat(b)))
			}
		case "bvlshr":
			if intBacked(a) && b.IsConst() && b.C.Cmp(big.NewInt(int64(w))) < 0 {
				return wrapNat(w, IDiv(BV2Nat(a), IntC(new(big.Int).Lsh(bigOne, uint(b.C.Uint64())))))
			}
		case "bvshl":
			if intBacked(a) && b.IsConst() && b.C.Cmp(big.NewInt(int64(w))) < 0 {
				return wrapNat(w, IMul(BV2Nat(a), IntC(new(big.Int).Lsh(bigOne, uint(b.C.Uint64())))))
			}
		case "bvand":
			if intBacked(a) && b.IsConst() {
				m := new(big.Int).Add(b.C, bigOne)
				if m.BitLen() > 1 && new(big.Int).And(m, b.C).Sign() == 0 { // mask 2^k-1
					return wrapNat(w, IMod(BV2Nat(a), IntC(m)))
				}
			}
		}
	}
	if a.IsConst() && b.IsConst() {
		x, y := a.C, b.C
		r := new(big.Int)
		switch op {
		case "bvadd":
			r.Add(x, y)
		case "bvsub":
			r.Sub(x, y)
		case "bvmul":
			r.Mul(x, y)
		case "bvudiv":
			if y.Sign() == 0 {
				return BVC(w, mask(w))
			}
			r.Div(x, y)
		case "bvurem":
			if y.Sign() == 0 {
				return a
			}
			r.Mod(x, y)
		case "bvsdiv":
			if y.Sign() == 0 {
				goto nofold
			}
			r.Quo(a.SVal(), b.SVal())
		case "bvsrem":
			if y.Sign() == 0 {
				goto nofold
			}
			r.Rem(a.SVal(), b.SVal())
		case "bvand":
			r.And(x, y)
		case "bvor":
			r.Or(x, y)
		case "bvxor":
			r.Xor(x, y)
		case "bvshl":
			if y.Cmp(big.NewInt(int64(w))) >= 0 {
				return BVU(w, 0)
			}
			r.Lsh(x, uint(y.Uint64()))
		case "bvlshr":
			if y.Cmp(big.NewInt(int64(w))) >= 0 {
				return BVU(w, 0)
			}
			r.Rsh(x, uint(y.Uint64()))
		case "bvashr":
			sh := uint(w)
			if y.Cmp(big.NewInt(int64(w))) < 0 {
				sh = uint(y.Uint64())
			}
			r.Rsh(a.SVal(), sh)
		default:
			goto nofold
		}
		return BVC(w, r)
	}
nofold:
	// light identities
	switch op {
	case "bvadd", "bvor", "bvxor":
		if a.IsConst() && a.C.Sign() == 0 {
			return b
		}
		if b.IsConst() && b.C.Sign() == 0 {
			return a
		}
	case "bvsub", "bvshl", "bvlshr", "bvashr":
		if b.IsConst() && b.C.Sign() == 0 {
			return a
		}
	case "bvmul":
		if a.IsConst() && a.C.Cmp(bigOne) == 0 {
			return b
		}
		if b.IsConst() && b.C.Cmp(bigOne) == 0 {
			return a
		}
		if (a.IsConst() && a.C.Sign() == 0) || (b.IsConst() && b.C.Sign() == 0) {
			return BVU(w, 0)
		}
	case "bvand":
		if (a.IsConst() && a.C.Sign() == 0) || (b.IsConst() && b.C.Sign() == 0) {
			return BVU(w, 0)
		}
		if a.IsConst() && a.C.Cmp(mask(w)) == 0 {
			return b
		}
		if b.IsConst() && b.C.Cmp(mask(w)) == 0 {
			return a
		}
	}
	return mk(op, a.S, a, b)
}

// ubound: a cheap unsigned upper bound of a BV term (nil = nothing better than the width).
func ubound(t *Term) *big.Int {
	if t.S.K != SBV {
		return nil
	}
	if t.IsConst() {
		return t.C
	}
	if t.UB != nil {
		return t.UB
	}
	switch t.Op {
	case "zext":
		if b := ubound(t.Args[0]); b != nil {
			return b
		}
		return mask(t.Args[0].S.W)
	case "ite":
		a, b := ubound(t.Args[1]), ubound(t.Args[2])
		if a != nil && b != nil {
			if a.Cmp(b) > 0 {
				return a
			}
			return b
		}
	case "bvand":
		a, b := ubound(t.Args[0]), ubound(t.Args[1])
		if a != nil && (b == nil || a.Cmp(b) < 0) {
			return a
		}
		return b
	case "bvlshr", "bvudiv", "bvurem":
		return ubound(t.Args[0])
	}
	return nil
}

// BVAdd narrows the adder when both operands are known to be small (sums of bits,
// counters): the result is computed at the smallest sufficient width and zero-extended.
func BVAdd(a, b *Term) *Term {
	if a.S.K == SBV && a.S == b.S && !(a.IsConst() && b.IsConst()) {
		ua, ub := ubound(a), ubound(b)
		if ua != nil && ub != nil {
			sum := new(big.Int).Add(ua, ub)
			k := sum.BitLen()
			if k == 0 {
				k = 1
			}
			w := a.S.W
			if k < w {
				var r *Term
				if k <= w/2 {
					r = ZExt(w, bvBin("bvadd", Extract(k-1, 0, a), Extract(k-1, 0, b)))
				} else {
					r = bvBin("bvadd", a, b)
				}
				if !r.IsConst() && r.UB == nil {
					r.UB = sum
				}
				return r
			}
		}
	}
	return bvBin("bvadd", a, b)
}
func BVSub(a, b *Term) *Term  { return bvBin("bvsub", a, b) }
func BVMul(a, b *Term) *Term  { return bvBin("bvmul", a, b) }
func BVUDiv(a, b *Term) *Term { return bvBin("bvudiv", a, b) }
func BVURem(a, b *Term) *Term { return bvBin("bvurem", a, b) }
func BVSDiv(a, b *Term) *Term { return bvBin("bvsdiv", a, b) }
func BVSRem(a, b *Term) *Term { return bvBin("bvsrem", a, b) }
func BVAnd(a, b *Term) *Term  { return bvBin("bvand", a, b) }
func BVOr(a, b *Term) *Term   { return bvBin("bvor", a, b) }
func BVXor(a, b *Term) *Term  { return bvBin("bvxor", a, b) }
func BVShl(a, b *Term) *Term  { return bvBin("bvshl", a, b) }
func BVLshr(a, b *Term) *Term { return bvBin("bvlshr", a, b) }
func BVAshr(a, b *Term) *Term { return bvBin("bvashr", a, b) }

func BVNot(a *Term) *Term {
	if a.IsConst() {
		return BVC(a.S.W, new(big.Int).Xor(a.C, mask(a.S.W)))
	}
	return mk("bvnot", a.S, a)
}

func BVNeg(a *Term) *Term {
	if a.IsConst() {
		return BVC(a.S.W, new(big.Int).Neg(a.C))
	}
	return mk("bvneg", a.S, a)
}

func bvCmp(op string, a, b *Term) *Term {
	if a.S != b.S || a.S.K != SBV {
		panic(fmt.Sprintf("bv %s sort mismatch %v %v", op, a.S, b.S))
	}
	if a.IsConst() && b.IsConst() {
		var c int
		if op[2] == 'u' {
			c = a.C.Cmp(b.C)
		} else {
			c = a.SVal().Cmp(b.SVal())
		}
		switch op[3:] {
		case "lt":
			return BoolC(c < 0)
		case "le":
			return BoolC(c <= 0)
		case "gt":
			return BoolC(c > 0)
		case "ge":
			return BoolC(c >= 0)
		}
	}
	if a == b {
		switch op[3:] {
		case "lt", "gt":
			return tFalse
		default:
			return tTrue
		}
	}
	if op[2] == 'u' && (intBacked(a) || intBacked(b)) {
		x, y := BV2Nat(a), BV2Nat(b)
		switch op[3:] {
		case "lt":
			return ILt(x, y)
		case "le":
			return ILe(x, y)
		case "gt":
			return IGt(x, y)
		case "ge":
			return IGe(x, y)
		}
	}
	return mk(op, BoolSort, a, b)
}

func BVUlt(a, b *Term) *Term { return bvCmp("bvult", a, b) }
func BVUle(a, b *Term) *Term { return bvCmp("bvule", a, b) }
func BVSlt(a, b *Term) *Term { return bvCmp("bvslt", a, b) }
func BVSle(a, b *Term) *Term { return bvCmp("bvsle", a, b) }

func Extract(hi, lo int, a *Term) *Term {
	if a.S.K != SBV || hi >= a.S.W || lo < 0 || hi < lo {
		panic(fmt.Sprintf("bad extract %d %d of %v", hi, lo, a.S))
	}
	w := hi - lo + 1
	if lo == 0 && w == a.S.W {
		return a
	}
	if a.IsConst() {
		return BVC(w, new(big.Int).Rsh(a.C, uint(lo)))
	}
	if intBacked(a) && lo == 0 {
		return Int2BV(w, IMod(a.Args[0], IntC(new(big.Int).Lsh(bigOne, uint(w)))))
	}
	if a.Op == "extract" {
		return Extract(hi+a.Lo, lo+a.Lo, a.Args[0])
	}
	if a.Op == "concat" {
		// descend into the matching part when aligned
		off := a.S.W
		for _, p := range a.Args {
			off -= p.S.W
			if lo >= off && hi < off+p.S.W {
				return Extract(hi-off, lo-off, p)
			}
		}
	}
	if a.Op == "zext" {
		iw := a.Args[0].S.W
		if hi < iw {
			return Extract(hi, lo, a.Args[0])
		}
		if lo >= iw {
			return BVU(w, 0)
		}
		if lo == 0 {
			return ZExt(w, a.Args[0])
		}
	}
	if a.Op == "ite" && (a.Args[1].IsConst() || a.Args[2].IsConst()) {
		return Ite(a.Args[0], Extract(hi, lo, a.Args[1]), Extract(hi, lo, a.Args[2]))
	}
	return &Term{Op: "extract", S: BVSort(w), Args: []*Term{a}, Hi: hi, Lo: lo}
}

func Concat(parts ...*Term) *Term {
	// flatten, fold adjacent constants, merge adjacent extracts of same base
	var flat []*Term
	for _, p := range parts {
		if p.Op == "concat" {
			flat = append(flat, p.Args...)
		} else {
			flat = append(flat, p)
		}
	}
	var out []*Term
	for _, p := range flat {
		if n := len(out); n > 0 {
			q := out[n-1]
			if q.IsConst() && p.IsConst() {
				v := new(big.Int).Lsh(q.C, uint(p.S.W))
				v.Or(v, p.C)
				out[n-1] = BVC(q.S.W+p.S.W, v)
				continue
			}
			if q.Op == "extract" && p.Op == "extract" && q.Args[0] == p.Args[0] && q.Lo == p.Hi+1 {
				out[n-1] = Extract(q.Hi, p.Lo, q.Args[0])
				continue
			}
		}
		out = append(out, p)
	}
	if len(out) == 1 {
		return out[0]
	}
	w := 0
	for _, p := range out {
		w += p.S.W
	}
	return mk("concat", BVSort(w), out...)
}

func ZExt(w int, a *Term) *Term {
	if a.S.W == w {
		return a
	}
	if a.S.W > w {
		return Extract(w-1, 0, a)
	}
	if intBacked(a) {
		return Int2BV(w, a.Args[0])
	}
	if a.IsConst() {
		return BVC(w, a.C)
	}
	return &Term{Op: "zext", S: BVSort(w), Args: []*Term{a}, Hi: w}
}

func SExt(w int, a *Term) *Term {
	if a.S.W == w {
		return a
	}
	if a.S.W > w {
		return Extract(w-1, 0, a)
	}
	if a.IsConst() {
		return BVC(w, a.SVal())
	}
	return &Term{Op: "sext", S: BVSort(w), Args: []*Term{a}, Hi: w}
}

// ---------- Int ----------

func intBin(op string, a, b *Term) *Term {
	if a.S.K != SInt || b.S.K != SInt {
		panic(fmt.Sprintf("int %s sort mismatch %v %v", op, a.S, b.S))
	}
	if a.IsConst() && b.IsConst() {
		r := new(big.Int)
		switch op {
		case "+":
			return IntC(r.Add(a.C, b.C))
		case "-":
			return IntC(r.Sub(a.C, b.C))
		case "*":
			return IntC(r.Mul(a.C, b.C))
		case "div":
			if b.C.Sign() != 0 {
				return IntC(r.Div(a.C, b.C)) // Euclidean, as SMT-LIB
			}
		case "mod":
			if b.C.Sign() != 0 {
				return IntC(r.Mod(a.C, b.C))
			}
		}
	}
	if (op == "mod" || op == "div") && a.Op == "bv2nat" && b.IsConst() && b.C.Sign() > 0 {
		k := b.C.BitLen() - 1
		if new(big.Int).Lsh(bigOne, uint(k)).Cmp(b.C) == 0 { // power of two
			x := a.Args[0]
			if op == "mod" {
				if k >= x.S.W {
					return a
				}
				if k == 0 {
					return IntI(0)
				}
				return BV2Nat(Extract(k-1, 0, x))
			}
			if k >= x.S.W {
				return IntI(0)
			}
			if k == 0 {
				return a
			}
			return BV2Nat(Extract(x.S.W-1, k, x))
		}
	}
	switch op {
	case "+":
		if a.IsConst() && a.C.Sign() == 0 {
			return b
		}
		if b.IsConst() && b.C.Sign() == 0 {
			return a
		}
	case "-":
		if b.IsConst() && b.C.Sign() == 0 {
			return a
		}
		if a == b {
			return IntI(0)
		}
	case "*":
		if a.IsConst() && a.C.Cmp(bigOne) == 0 {
			return b
		}
		if b.IsConst() && b.C.Cmp(bigOne) == 0 {
			return a
		}
		if (a.IsConst() && a.C.Sign() == 0) || (b.IsConst() && b.C.Sign() == 0) {
			return IntI(0)
		}
	case "div":
		if b.IsConst() && b.C.Cmp(bigOne) == 0 {
			return a
		}
	}
	r := mk(op, IntSort, a, b)
	switch op {
	case "mod":
		if b.IsConst() && b.C.Sign() > 0 {
			k := new(big.Int).Sub(b.C, bigOne).BitLen()
			if k == 0 {
				k = 1
			}
			r.NatW = k
		}
	case "div":
		if b.IsConst() && b.C.Sign() > 0 {
			r.NatW = natW(a)
		}
	}
	return r
}

func IAdd(a, b *Term) *Term { return intBin("+", a, b) }
func ISub(a, b *Term) *Term { return intBin("-", a, b) }
func IMul(a, b *Term) *Term { return intBin("*", a, b) }
func IDiv(a, b *Term) *Term { return intBin("div", a, b) }
func IMod(a, b *Term) *Term { return intBin("mod", a, b) }
func INeg(a *Term) *Term    { return ISub(IntI(0), a) }

func intCmp(op string, a, b *Term) *Term {
	if a.S.K != b.S.K || (a.S.K != SInt && a.S.K != SReal) {
		panic(fmt.Sprintf("int cmp %s sort mismatch %v %v", op, a.S, b.S))
	}
	if a.IsConst() && b.IsConst() && a.S.K == SInt {
		c := a.C.Cmp(b.C)
		switch op {
		case "<":
			return BoolC(c < 0)
		case "<=":
			return BoolC(c <= 0)
		case ">":
			return BoolC(c > 0)
		case ">=":
			return BoolC(c >= 0)
		}
	}
	return mk(op, BoolSort, a, b)
}

func ILt(a, b *Term) *Term { return intCmp("<", a, b) }
func ILe(a, b *Term) *Term { return intCmp("<=", a, b) }
func IGt(a, b *Term) *Term { return intCmp(">", a, b) }
func IGe(a, b *Term) *Term { return intCmp(">=", a, b) }

// BV -> Int (unsigned)
func BV2Nat(a *Term) *Term {
	if a.IsConst() {
		return IntC(a.C)
	}
	if a.Op == "int2bv" {
		if nw := natW(a.Args[0]); nw > 0 && nw <= a.S.W {
			return a.Args[0]
		}
	}
	t := mk("bv2nat", IntSort, a)
	t.NatW = a.S.W
	return t
}

// natW: width k such that the Int term is known to lie in [0, 2^k); 0 = unknown
func natW(t *Term) int {
	if t.S.K != SInt {
		return 0
	}
	if t.IsConst() {
		if t.C.Sign() < 0 {
			return 0
		}
		if n := t.C.BitLen(); n > 0 {
			return n
		}
		return 1
	}
	return t.NatW
}

// LiftMulDiv: when set, 64-bit unsigned multiply/divide/remainder are encoded in integer
// arithmetic with an explicit mod 2^64 (the bit-vector encoding of v/10000*rate does not
// terminate in any available solver; the integer encoding is decided in seconds).
var LiftMulDiv = false

// intBacked reports whether a BV term is int2bv of an in-range Int (then its unsigned
// value is that Int and arithmetic/comparisons can stay in the integer theory).
func intBacked(t *Term) bool {
	if t.Op != "int2bv" {
		return false
	}
	nw := natW(t.Args[0])
	return nw > 0 && nw <= t.S.W
}

func wrapNat(w int, t *Term) *Term {
	if nw := natW(t); nw > 0 && nw <= w {
		return Int2BV(w, t)
	}
	m := IMod(t, IntC(new(big.Int).Lsh(bigOne, uint(w))))
	return Int2BV(w, m)
}

// BV -> Int (signed)
func BV2Int(a *Term) *Term {
	if a.IsConst() {
		return IntC(a.SVal())
	}
	w := a.S.W
	u := BV2Nat(a)
	return Ite(BVSlt(a, BVU(w, 0)), ISub(u, IntC(new(big.Int).Lsh(bigOne, uint(w)))), u)
}

// Int -> BV (mod 2^w)
func Int2BV(w int, a *Term) *Term {
	if a.IsConst() {
		return BVC(w, a.C)
	}
	if a.Op == "bv2nat" {
		// stay in the bit-vector theory when the integer came from a bit-vector
		x := a.Args[0]
		if x.S.W == w {
			return x
		}
		if x.S.W < w {
			return ZExt(w, x)
		}
		return Extract(w-1, 0, x)
	}
	return &Term{Op: "int2bv", S: BVSort(w), Args: []*Term{a}, Hi: w}
}

func ToReal(a *Term) *Term {
	if a.IsConst() {
		return RealC(a.C, bigOne)
	}
	return mk("to_real", RealSort, a)
}

func UF(name string, ret Sort, args ...*Term) *Term {
	return &Term{Op: "uf", S: ret, Args: args, Name: name}
}

// ---------- printing ----------

func constString(t *Term) string {
	switch t.S.K {
	case SBool:
		if t.B {
			return "true"
		}
		return "false"
	case SBV:
		if t.S.W%4 == 0 {
			s := t.C.Text(16)
			return "#x" + strings.Repeat("0", t.S.W/4-len(s)) + s
		}
		s := t.C.Text(2)
		return "#b" + strings.Repeat("0", t.S.W-len(s)) + s
	case SInt:
		if t.C.Sign() < 0 {
			return "(- " + new(big.Int).Neg(t.C).String() + ")"
		}
		return t.C.String()
	case SReal:
		n := t.C
		d := t.D
		if d == nil {
			d = bigOne
		}
		ns := n.String() + ".0"
		if n.Sign() < 0 {
			ns = "(- " + new(big.Int).Neg(n).String() + ".0)"
		}
		if d.Cmp(bigOne) == 0 {
			return ns
		}
		return "(/ " + ns + " " + d.String() + ".0)"
	}
	return "?"
}

func opHead(t *Term) string {
	switch t.Op {
	case "extract":
		return fmt.Sprintf("(_ extract %d %d)", t.Hi, t.Lo)
	case "zext":
		return fmt.Sprintf("(_ zero_extend %d)", t.Hi-t.Args[0].S.W)
	case "sext":
		return fmt.Sprintf("(_ sign_extend %d)", t.Hi-t.Args[0].S.W)
	case "int2bv":
		return fmt.Sprintf("(_ int2bv %d)", t.Hi)
	case "uf":
		return t.Name
	}
	return t.Op
}
