package main

import (
	"fmt"
	"go/types"
	"math/big"

	"golang.org/x/tools/go/ssa"
)

// Value is the run-time value of an SSA value during symbolic execution.
// Scalars are *Term; everything with identity or shape is concrete.
type Value interface{}

// Scalars: *Term (Bool, BV(w) for every Go integer type)

// FloatV: float64/float32. Concrete (Sym == nil) or a symbolic Real term with the
// IEEE standard-model over-approximation handled at operation sites.
type FloatV struct {
	F   float64
	Sym *Term // Real-sorted; nil if concrete
}

// StrV: Go string. Concrete when Sym == nil; otherwise a fixed-length sequence of byte terms.
type StrV struct {
	S   string
	Sym []*Term
}

func (s StrV) Len() int {
	if s.Sym != nil {
		return len(s.Sym)
	}
	return len(s.S)
}

func (s StrV) Bytes() []*Term {
	if s.Sym != nil {
		return s.Sym
	}
	out := make([]*Term, len(s.S))
	for i := 0; i < len(s.S); i++ {
		out[i] = BVU(8, uint64(s.S[i]))
	}
	return out
}

func (s StrV) IsConcrete() bool { return s.Sym == nil }

func StrFromBytes(bs []*Term) StrV {
	all := true
	for _, b := range bs {
		if !b.IsConst() {
			all = false
			break
		}
	}
	if all {
		raw := make([]byte, len(bs))
		for i, b := range bs {
			raw[i] = byte(b.U64())
		}
		return StrV{S: string(raw)}
	}
	if len(bs) == 0 {
		return StrV{}
	}
	return StrV{Sym: append([]*Term(nil), bs...)}
}

// Cell: a heap or stack location.
type Cell struct {
	V    Value
	Name string // for globals / debugging
	id   int
	local bool // allocated inside an errgroup task
	viewCopy bool // read-only copy standing for a slice-to-array-pointer view
}

// PtrV: pointer to a location: cell plus a path of field / element indices.
type PtrV struct {
	C    *Cell   // nil => nil pointer
	Path []int   // field index or element index
	Arr  *ArrObj // if non-nil, pointer to element Idx of Arr (then Path continues inside the element)
	Idx  int
	Opq  Value // opaque pointee (for dependency pointer types modelled as opaque objects), e.g. *OpaqueObj
}

func (p PtrV) IsNil() bool { return p.C == nil && p.Arr == nil && p.Opq == nil }

type ArrObj struct {
	E []Value
}

type StructV struct {
	F []Value
}

type ArrayV struct {
	A *ArrObj
}

type SliceV struct {
	A   *ArrObj // nil => nil slice
	Off int
	Len int
	Cap int
}

type MapEntry struct {
	K, V    Value
	Deleted bool
}

type MapObj struct {
	E []*MapEntry
}

type MapV struct {
	M *MapObj // nil => nil map
}

type IfaceV struct {
	T types.Type // dynamic type; nil => nil interface
	V Value
}

type FuncV struct {
	Fn    *ssa.Function
	Binds []Value
	Intr  string // intrinsic-implemented function value (name), when Fn == nil
	Recv  Value  // bound receiver for intrinsic method values
	Go    func(e *Exec, args []Value) Value
}

type TupleV struct {
	V []Value
}

// BigV: arbitrary-precision integer (math.Int, *big.Int contents). Nil marks the nil math.Int.
type BigV struct {
	T   *Term // Int sort
	Nil bool
}

// DecV: LegacyDec = integer scaled by 10^18.
type DecV struct {
	T   *Term // Int sort, value * 10^18
	Nil bool
}

// TimeV: time.Time as nanoseconds since Unix epoch (Int sort). Zero time.Time is a distinguished constant.
type TimeV struct {
	T    *Term // BV128: nanoseconds since the Unix epoch
	Secs *Term // BV64 Unix seconds when known separately (wall-clock readings)
}

// OpaqueV: a value of a dependency type we do not model structurally.
type OpaqueV struct {
	Kind string
	ID   string
	Data interface{}
}

// RangeIter: state of a Range instruction
type RangeIter struct {
	Str   *StrV
	Map   *MapObj
	Order []int
	Pos   int
}

// ---------- helpers ----------

var zeroTimeNanos = func() *big.Int {
	// time.Time{} is year 1; in Unix nanoseconds: -62135596800 * 1e9
	v := big.NewInt(-62135596800)
	return v.Mul(v, big.NewInt(1000000000))
}()

func isNamed(t types.Type, pkg, name string) bool {
	n, ok := t.(*types.Named)
	if !ok {
		if a, ok2 := t.(*types.Alias); ok2 {
			return isNamed(types.Unalias(a), pkg, name)
		}
		return false
	}
	o := n.Obj()
	return o.Pkg() != nil && o.Pkg().Path() == pkg && o.Name() == name
}

func namedKey(t types.Type) string {
	t = types.Unalias(t)
	n, ok := t.(*types.Named)
	if !ok {
		return ""
	}
	o := n.Origin().Obj()
	if o.Pkg() == nil {
		return o.Name()
	}
	return o.Pkg().Path() + "." + o.Name()
}

// opaque named types with special value representations
func opaqueZero(t types.Type) (Value, bool) {
	switch namedKey(t) {
	case "cosmossdk.io/math.Int":
		return BigV{Nil: true, T: IntI(0)}, true
	case "cosmossdk.io/math.LegacyDec":
		return DecV{Nil: true, T: IntI(0)}, true
	case "math/big.Int":
		return BigV{T: IntI(0)}, true
	case "time.Time":
		return TimeV{T: BVC(128, zeroTimeNanos)}, true
	case "github.com/cosmos/cosmos-sdk/types.Context":
		return &CtxV{}, true
	case "sync.Mutex", "sync.RWMutex", "sync.Once", "sync.WaitGroup":
		return OpaqueV{Kind: "sync"}, true
	}
	return nil, false
}

func (e *Exec) zero(t types.Type) Value {
	if v, ok := opaqueZero(t); ok {
		return v
	}
	switch u := t.Underlying().(type) {
	case *types.Basic:
		switch {
		case u.Info()&types.IsBoolean != 0:
			return tFalse
		case u.Info()&types.IsInteger != 0:
			return BVU(intWidth(u), 0)
		case u.Info()&types.IsFloat != 0:
			return FloatV{}
		case u.Info()&types.IsString != 0:
			return StrV{}
		case u.Kind() == types.UnsafePointer:
			return PtrV{}
		case u.Kind() == types.UntypedNil:
			return nil
		}
		panic(abortf("UNSUPPORTED zero of basic type %v", t))
	case *types.Pointer:
		return PtrV{}
	case *types.Struct:
		if namedFromDep(e, t) {
			if _, isN := types.Unalias(t).(*types.Named); isN && u.NumFields() > 0 && !allExported(u) {
				// dependency struct with unexported fields: keep opaque but structurally zero
			}
		}
		f := make([]Value, u.NumFields())
		for i := range f {
			f[i] = e.zero(u.Field(i).Type())
		}
		return &StructV{F: f}
	case *types.Array:
		n := int(u.Len())
		a := &ArrObj{E: make([]Value, n)}
		for i := range a.E {
			a.E[i] = e.zero(u.Elem())
		}
		return ArrayV{A: a}
	case *types.Slice:
		return SliceV{}
	case *types.Map:
		return MapV{}
	case *types.Interface:
		return IfaceV{}
	case *types.Signature:
		return FuncV{}
	case *types.Chan:
		return OpaqueV{Kind: "chan"}
	case *types.Tuple:
		vs := make([]Value, u.Len())
		for i := range vs {
			vs[i] = e.zero(u.At(i).Type())
		}
		return TupleV{V: vs}
	}
	panic(abortf("UNSUPPORTED zero of type %v", t))
}

func allExported(s *types.Struct) bool {
	for i := 0; i < s.NumFields(); i++ {
		if !s.Field(i).Exported() {
			return false
		}
	}
	return true
}

func namedFromDep(e *Exec, t types.Type) bool { return false }

func intWidth(b *types.Basic) int {
	switch b.Kind() {
	case types.Int8, types.Uint8:
		return 8
	case types.Int16, types.Uint16:
		return 16
	case types.Int32, types.Uint32, types.UntypedRune:
		return 32
	default:
		return 64
	}
}

func isSigned(t types.Type) bool {
	b, ok := t.Underlying().(*types.Basic)
	if !ok {
		return false
	}
	return b.Info()&types.IsInteger != 0 && b.Info()&types.IsUnsigned == 0
}

// copyVal implements Go value-copy semantics for aggregate values (structs and arrays
// are copied; pointers, slices, maps are shared).
func copyVal(v Value) Value {
	switch x := v.(type) {
	case *StructV:
		f := make([]Value, len(x.F))
		for i := range f {
			f[i] = copyVal(x.F[i])
		}
		return &StructV{F: f}
	case ArrayV:
		a := &ArrObj{E: make([]Value, len(x.A.E))}
		for i := range a.E {
			a.E[i] = copyVal(x.A.E[i])
		}
		return ArrayV{A: a}
	case TupleV:
		f := make([]Value, len(x.V))
		for i := range f {
			f[i] = copyVal(x.V[i])
		}
		return TupleV{V: f}
	case *CtxV:
		c := *x
		return &c
	}
	return v
}

// deepCopy clones a value including everything reachable through slices and pointers
// (used for store Set/Get: protobuf marshal/unmarshal produces fresh objects).
func deepCopy(v Value) Value {
	switch x := v.(type) {
	case *StructV:
		f := make([]Value, len(x.F))
		for i := range f {
			f[i] = deepCopy(x.F[i])
		}
		return &StructV{F: f}
	case ArrayV:
		a := &ArrObj{E: make([]Value, len(x.A.E))}
		for i := range a.E {
			a.E[i] = deepCopy(x.A.E[i])
		}
		return ArrayV{A: a}
	case SliceV:
		if x.A == nil {
			return x
		}
		if x.Len == 0 {
			return SliceV{} // protobuf round trip: empty => nil
		}
		a := &ArrObj{E: make([]Value, x.Len)}
		for i := 0; i < x.Len; i++ {
			a.E[i] = deepCopy(x.A.E[x.Off+i])
		}
		return SliceV{A: a, Len: x.Len, Cap: x.Len}
	case PtrV:
		if x.IsNil() || x.Opq != nil {
			return x
		}
		val := deepCopy(loadPtr(x))
		return PtrV{C: &Cell{V: val}}
	case IfaceV:
		return IfaceV{T: x.T, V: deepCopy(x.V)}
	case PairV:
		return PairV{A: deepCopy(x.A), B: deepCopy(x.B), HasA: x.HasA, HasB: x.HasB}
	case MapV:
		if x.M == nil {
			return x
		}
		m := &MapObj{}
		for _, en := range x.M.E {
			if en.Deleted {
				continue
			}
			m.E = append(m.E, &MapEntry{K: deepCopy(en.K), V: deepCopy(en.V)})
		}
		return MapV{M: m}
	}
	return v
}

// ---------- pointers ----------

func navigate(v Value, path []int) Value {
	for _, i := range path {
		switch x := v.(type) {
		case *StructV:
			v = x.F[i]
		case ArrayV:
			v = x.A.E[i]
		default:
			panic(abortf("ENGINE navigate into %T", v))
		}
	}
	return v
}

func loadPtr(p PtrV) Value {
	if p.IsNil() {
		panic(&GoPanic{Msg: "nil pointer dereference"})
	}
	if p.Opq != nil {
		return p.Opq
	}
	var root Value
	if p.Arr != nil {
		if p.Idx >= len(p.Arr.E) {
			panic(abortf("ENGINE pointer past array end"))
		}
		root = p.Arr.E[p.Idx]
	} else {
		root = p.C.V
	}
	return copyVal(navigate(root, p.Path))
}

func storePtr(p PtrV, v Value) {
	if p.IsNil() {
		panic(&GoPanic{Msg: "nil pointer dereference"})
	}
	if p.Opq != nil {
		panic(abortf("UNSUPPORTED store through opaque pointer"))
	}
	v = copyVal(v)
	if len(p.Path) == 0 {
		if p.Arr != nil {
			p.Arr.E[p.Idx] = v
		} else {
			p.C.V = v
		}
		return
	}
	var root Value
	if p.Arr != nil {
		root = p.Arr.E[p.Idx]
	} else {
		root = p.C.V
	}
	parent := navigate(root, p.Path[:len(p.Path)-1])
	last := p.Path[len(p.Path)-1]
	switch x := parent.(type) {
	case *StructV:
		x.F[last] = v
	case ArrayV:
		x.A.E[last] = v
	default:
		panic(abortf("ENGINE store into %T", parent))
	}
}

func ptrEqual(a, b PtrV) bool {
	if a.IsNil() || b.IsNil() {
		return a.IsNil() && b.IsNil()
	}
	if a.Opq != nil || b.Opq != nil {
		ao, ok1 := a.Opq.(*OpaqueObj)
		bo, ok2 := b.Opq.(*OpaqueObj)
		return ok1 && ok2 && ao == bo
	}
	if a.C != b.C || a.Arr != b.Arr || a.Idx != b.Idx || len(a.Path) != len(b.Path) {
		return false
	}
	for i := range a.Path {
		if a.Path[i] != b.Path[i] {
			return false
		}
	}
	return true
}

// OpaqueObj: heap object of a dependency type with identity (e.g. *big.Int is handled separately).
type OpaqueObj struct {
	Kind string
	Data interface{}
}

func (p PtrV) extend(i int) PtrV {
	np := make([]int, len(p.Path)+1)
	copy(np, p.Path)
	np[len(p.Path)] = i
	return PtrV{C: p.C, Path: np, Arr: p.Arr, Idx: p.Idx}
}

func fmtVal(v Value) string {
	switch x := v.(type) {
	case *Term:
		if x.IsConst() {
			return constString(x)
		}
		return "<sym " + x.S.String() + ">"
	case StrV:
		if x.IsConcrete() {
			return fmt.Sprintf("%q", x.S)
		}
		return fmt.Sprintf("<symstr %d>", len(x.Sym))
	case nil:
		return "nil"
	}
	return fmt.Sprintf("%T", v)
}
