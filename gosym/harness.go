package main

import (
	"go/types"
	osexec "os/exec"
	"encoding/hex"
	"fmt"
	"math/big"
	"os"
	"sort"
	"strings"
	"sync"
	"time"

	"golang.org/x/tools/go/ssa"
)

type RunConfig struct {
	MaxDecisions          int
	MaxDepth              int
	MaxLoop               int
	PermuteMaps           bool
	Thorough              bool
	Workers               int
	TimeoutMs             int
	MaxPaths              int
	RangeFacts            bool // see Exec.knownNat
	BudgetS               int // wall-clock budget of one harness exploration; exceeded = INCONCLUSIVE, never a verdict
	SolverKind            string
	LogDir                string
	MaxViolationsPerLabel int
	IncTimeoutMs int // timeout of the incremental solver before the one-shot fallback
	CrossCheck   int // re-decide up to this many discharged obligations per harness with the other solvers
	CheckIntOverflow      bool
	Known                 map[string][]*KnownFinding
}

func defaultConfig() *RunConfig {
	return &RunConfig{MaxDecisions: 4000, MaxDepth: 200, MaxLoop: 5000, Workers: 16, TimeoutMs: 60000, IncTimeoutMs: 4000, MaxPaths: 2000000, SolverKind: defaultSolver(), MaxViolationsPerLabel: 1}
}

type Violation struct {
	Harness string                `json:"harness"`
	Label   string                `json:"label"`
	Kind    string                `json:"kind"` // assert | panic
	Model   map[string]ModelInput `json:"inputs"`
	Notes   map[string]string     `json:"notes,omitempty"`
	Trail   []int                 `json:"trail"`
	Detail  string                `json:"detail,omitempty"`
	Known   *KnownFinding         `json:"known,omitempty"`
}

type ModelInput struct {
	Kind string `json:"kind"`
	Val  string `json:"val"`
}

type Witness struct {
	Label string                `json:"label"`
	Model map[string]ModelInput `json:"inputs"`
	Notes map[string]string     `json:"notes"`
}

// HarnessRun accumulates results over all paths of one harness (shared by workers).
type HarnessRun struct {
	mu                           sync.Mutex
	Name                         string
	Pkg                          string
	Paths                        int
	Completed                    int
	AssertsChecked               map[string]int // label -> number of (path, assertion) obligations discharged
	AssertsTrivial               map[string]int
	Reached                      map[string]int
	Violations                   []*Violation
	violCount                    map[string]int
	Witnesses                    []*Witness
	witnessFor                   map[string]bool
	Aborts                       map[string]int // "KIND: msg" -> count
	UnknownFeas                  int
	UnknownAsserts               int
	Panics                       map[string]int
	Steps, Branches, StoreOps    int64
	Queries, Sat, Unsat, Unknown int
	SolveTime                    time.Duration
	Funcs                        map[string]bool
	DepGlobals                   map[string]bool
	CrossChecked                 int
	CrossAgree                   map[string]int
	CrossUnknown                 map[string]int
	Wall                         time.Duration
	infeasible                   int
}

func newHarnessRun(pkg, name string) *HarnessRun {
	return &HarnessRun{Name: name, Pkg: pkg, AssertsChecked: map[string]int{}, AssertsTrivial: map[string]int{}, Reached: map[string]int{},
		violCount: map[string]int{}, witnessFor: map[string]bool{}, Aborts: map[string]int{}, Panics: map[string]int{}, Funcs: map[string]bool{}, DepGlobals: map[string]bool{}, CrossAgree: map[string]int{}, CrossUnknown: map[string]int{}}
}

// pathState: per-path harness bookkeeping (merged into HarnessRun at path end)
type pathState struct {
	notes []noteRec
}

type noteRec struct {
	label string
	val   Value
}

// explore runs all paths of a harness.
func explore(L *Loaded, init *InitState, fn *ssa.Function, cfg *RunConfig) *HarnessRun {
	hr := newHarnessRun(fn.Pkg.Pkg.Path(), fn.Name())
	start := time.Now()
	var wl struct {
		sync.Mutex
		items   [][]int
		active  int
		started int
		cond    *sync.Cond
	}
	wl.cond = sync.NewCond(&wl.Mutex)
	wl.items = [][]int{{}}
	var wg sync.WaitGroup
	done := make(chan struct{})
	go func() {
		tk := time.NewTicker(20 * time.Second)
		defer tk.Stop()
		for {
			select {
			case <-done:
				return
			case <-tk.C:
				wl.Lock()
				q, a, st := len(wl.items), wl.active, wl.started
				wl.Unlock()
				hr.mu.Lock()
				fmt.Fprintf(os.Stderr, "[%s %.0fs] paths started=%d finished=%d queued=%d active=%d violations=%d aborts=%d\n", hr.Name, time.Since(start).Seconds(), st, hr.Paths, q, a, len(hr.Violations), len(hr.Aborts))
				hr.mu.Unlock()
			}
		}
	}()
	for w := 0; w < cfg.Workers; w++ {
		wg.Add(1)
		go func(w int) {
			defer wg.Done()
			logPath := ""
			if cfg.LogDir != "" {
				logPath = fmt.Sprintf("%s/%s.w%d.smt2", cfg.LogDir, fn.Name(), w)
			}
			solver, err := NewSolver(cfg.SolverKind, cfg.IncTimeoutMs, logPath)
			if err == nil {
				solver.Fallback = true
				solver.FallbackMs = cfg.TimeoutMs
			}
			if err != nil {
				hr.mu.Lock()
				hr.Aborts["SOLVER: "+err.Error()]++
				hr.mu.Unlock()
				return
			}
			defer func() {
				hr.mu.Lock()
				hr.Queries += solver.Queries
				hr.Sat += solver.Sat
				hr.Unsat += solver.Unsat
				hr.Unknown += solver.Unknown
				hr.SolveTime += solver.SolveTime
				hr.mu.Unlock()
				solver.Close()
			}()
			for {
				wl.Lock()
				for len(wl.items) == 0 && wl.active > 0 {
					wl.cond.Wait()
				}
				if len(wl.items) == 0 {
					wl.Unlock()
					wl.cond.Broadcast()
					return
				}
				if cfg.BudgetS > 0 && time.Since(start) > time.Duration(cfg.BudgetS)*time.Second {
					q := len(wl.items)
					wl.items = nil
					wl.Unlock()
					hr.mu.Lock()
					hr.Aborts[fmt.Sprintf("BUDGET: exploration stopped after %ds with unexplored paths (the code under test forks more than this harness's budget covers)", cfg.BudgetS)] += q
					hr.mu.Unlock()
					wl.cond.Broadcast()
					return
				}
				if wl.started >= cfg.MaxPaths {
					wl.items = nil
					wl.Unlock()
					hr.mu.Lock()
					hr.Aborts["UNWIND: path bound exceeded"]++
					hr.mu.Unlock()
					wl.cond.Broadcast()
					return
				}
				prefix := wl.items[len(wl.items)-1]
				wl.items = wl.items[:len(wl.items)-1]
				wl.active++
				wl.started++
				wl.Unlock()

				pending := runPath(L, init, fn, cfg, solver, prefix, hr)

				wl.Lock()
				wl.items = append(wl.items, pending...)
				wl.active--
				wl.Unlock()
				wl.cond.Broadcast()
			}
		}(w)
	}
	wg.Wait()
	close(done)
	hr.Wall = time.Since(start)
	return hr
}

func runPath(L *Loaded, init *InitState, fn *ssa.Function, cfg *RunConfig, solver *Solver, prefix []int, hr *HarnessRun) (pending [][]int) {
	e := newExec(L, init, cfg, solver)
	solver.Inputs = func() []*Term { return e.Inputs }
	e.prefix = prefix
	e.H = hr
	e.Funcs = map[string]bool{}
	solver.Push()
	hobj := PtrV{Opq: &OpaqueObj{Kind: "H"}}
	var abort *pathAbort
	var gpanic *GoPanic
	func() {
		defer func() {
			if r := recover(); r != nil {
				switch x := r.(type) {
				case *pathAbort:
					abort = x
				case *GoPanic:
					gpanic = x
				default:
					panic(r)
				}
			}
		}()
		e.runFunction(fn, []Value{hobj}, nil)
	}()
	if gpanic != nil {
		// uncaught panic in the harness: a violation candidate (the harness must wrap expected panics in h.Panics)
		e.reportViolation("panic", "uncaught-panic", gpanic.Msg)
	}
	solver.Pop()
	hr.mu.Lock()
	hr.Paths++
	if abort != nil {
		if abort.Kind == "INFEASIBLE" {
			hr.infeasible++
		} else if abort.Kind != "STOP" {
			hr.Aborts[abort.Kind+": "+abort.Msg]++
		}
	} else {
		hr.Completed++
	}
	hr.Steps += e.Steps
	hr.Branches += e.Branches
	hr.StoreOps += e.StoreOps
	for f, real := range e.Funcs {
		if real {
			hr.Funcs[f] = true
		}
	}
	for g := range e.DepGlobals {
		hr.DepGlobals[g] = true
	}
	hr.mu.Unlock()
	return e.pending
}

// ---------- model extraction ----------

func (e *Exec) modelInputs() map[string]ModelInput {
	vals := e.Solver.Values(append([]*Term{}, e.symInputs()...))
	res := map[string]ModelInput{}
	// group bytes
	type bkey struct{ name string }
	byteArrays := map[string][]byte{}
	for name, meta := range e.InputMeta {
		switch meta.Kind {
		case "bytes":
			buf := make([]byte, meta.N)
			for i := 0; i < meta.N; i++ {
				if t, ok := vals[fmt.Sprintf("%s!b%d", name, i)]; ok {
					buf[i] = byte(t.U64())
				}
			}
			byteArrays[name] = buf
			res[name] = ModelInput{Kind: "bytes", Val: hex.EncodeToString(buf)}
		case "choose":
			res[name] = ModelInput{Kind: "choose", Val: fmt.Sprint(meta.N)}
		case "bool":
			v := "0"
			if t, ok := vals[name]; ok && t.B {
				v = "1"
			}
			res[name] = ModelInput{Kind: "bool", Val: v}
		case "i64", "i32":
			v := "0"
			if t, ok := vals[name]; ok {
				v = t.SVal().String()
			}
			res[name] = ModelInput{Kind: meta.Kind, Val: v}
		default:
			v := "0"
			if t, ok := vals[name]; ok {
				v = t.C.String()
			}
			res[name] = ModelInput{Kind: meta.Kind, Val: v}
		}
	}
	return res
}

func (e *Exec) symInputs() []*Term { return e.Inputs }

// evalNotes evaluates recorded notes under the current model
func containsUF(t *Term, memo map[*Term]bool) bool {
	if v, ok := memo[t]; ok {
		return v
	}
	r := t.Op == "uf"
	for _, a := range t.Args {
		if r {
			break
		}
		r = containsUF(a, memo)
	}
	memo[t] = r
	return r
}

func (e *Exec) evalNotes() map[string]string {
	out := map[string]string{}
	memo := map[*Term]bool{}
	for _, n := range e.notes {
		// values that depend on an uninterpreted function (hashes) cannot be predicted
		skip := false
		switch v := n.val.(type) {
		case *Term:
			skip = containsUF(v, memo)
		case []*Term:
			for _, b := range v {
				skip = skip || containsUF(b, memo)
			}
		}
		if skip {
			continue
		}
		switch v := n.val.(type) {
		case *Term:
			if v.IsConst() {
				out[n.label] = termValString(v)
			} else {
				m := e.Solver.EvalTerm(v)
				if m != nil {
					out[n.label] = termValString(m)
				}
			}
		case []*Term:
			buf := make([]byte, len(v))
			okAll := true
			for i, b := range v {
				if b.IsConst() {
					buf[i] = byte(b.U64())
				} else if m := e.Solver.EvalTerm(b); m != nil {
					buf[i] = byte(m.U64())
				} else {
					okAll = false
				}
			}
			if okAll {
				out[n.label] = hex.EncodeToString(buf)
			}
		case string:
			out[n.label] = v
		}
	}
	return out
}

func termValString(t *Term) string {
	switch t.S.K {
	case SBool:
		if t.B {
			return "1"
		}
		return "0"
	default:
		return t.C.String()
	}
}

func (s *Solver) EvalTerm(t *Term) *Term {
	if s.oneShotVals != nil {
		return nil // the model lives in the one-shot process
	}
	name := s.emit(t)
	s.send("(get-value (" + name + "))")
	text := s.readSexp()
	vals := parseGetValue(text)
	for _, v := range vals {
		return parseConst(v, t.S)
	}
	return nil
}

func (e *Exec) reportViolation(kind, label, detail string) {
	hr := e.H
	hr.mu.Lock()
	n := hr.violCount[label]
	hr.violCount[label]++
	hr.mu.Unlock()
	if n >= e.Cfg.MaxViolationsPerLabel {
		return
	}
	// need a model: the current path condition (plus negated assertion pushed by caller) must be sat
	v := &Violation{Harness: hr.Name, Label: label, Kind: kind, Detail: detail, Trail: append([]int{}, e.trail...)}
	if r := e.Solver.Check(); r == RSat {
		v.Model = e.modelInputs()
		v.Notes = e.evalNotes()
	} else {
		v.Detail += " (no model: " + r.String() + ")"
	}
	hr.mu.Lock()
	hr.Violations = append(hr.Violations, v)
	hr.mu.Unlock()
}

// ---------- vrt intrinsics ----------

const vrtPkg = repoMod + "/zzverif/vrt"

func vrtKey(m string) string { return "(*" + vrtPkg + ".H)." + m }

func (e *Exec) concreteStr(v Value, what string) string {
	s, ok := v.(StrV)
	if !ok || !s.IsConcrete() {
		panic(abortf("UNSUPPORTED %s must be a concrete string", what))
	}
	return s.S
}

func (e *Exec) declareInput(name string, s Sort, kind string) *Term {
	if _, dup := e.InputMeta[name]; dup {
		panic(abortf("ENGINE duplicate harness input name %q", name))
	}
	e.InputMeta[name] = InputMeta{Kind: kind}
	t := Var(name, s)
	e.Inputs = append(e.Inputs, t)
	return t
}

func init() {
	reg := func(m string, f func(e *Exec, fn *ssa.Function, a []Value) Value) { intrinsics[vrtKey(m)] = f }
	intIn := func(kind string, w int) func(e *Exec, fn *ssa.Function, a []Value) Value {
		return func(e *Exec, fn *ssa.Function, a []Value) Value {
			name := e.concreteStr(a[1], "input name")
			if LiftMulDiv && w >= 32 && kind[0] == 'u' {
				// integer-arithmetic mode: the input is an Int in [0, 2^w) viewed as a bit-vector
				t := e.declareInput(name, IntSort, kind)
				e.assume(And(IGe(t, IntI(0)), ILt(t, IntC(new(big.Int).Lsh(bigOne, uint(w))))))
				t.NatW = w
				return Int2BV(w, t)
			}
			return e.declareInput(name, BVSort(w), kind)
		}
	}
	reg("U64", intIn("u64", 64))
	reg("U32", intIn("u32", 32))
	reg("U16", intIn("u16", 16))
	reg("U8", intIn("u8", 8))
	reg("I64", intIn("i64", 64))
	reg("I32", intIn("i32", 32))
	reg("Bool", func(e *Exec, fn *ssa.Function, a []Value) Value {
		return e.declareInput(e.concreteStr(a[1], "input name"), BoolSort, "bool")
	})
	reg("Choose", func(e *Exec, fn *ssa.Function, a []Value) Value {
		name := e.concreteStr(a[1], "input name")
		lo := e.concreteInt(a[2], "Choose lo")
		hi := e.concreteInt(a[3], "Choose hi")
		if hi < lo {
			panic(abortf("INFEASIBLE empty Choose range"))
		}
		v := lo + e.choose(hi-lo+1)
		if _, dup := e.InputMeta[name]; dup {
			panic(abortf("ENGINE duplicate harness input name %q", name))
		}
		e.InputMeta[name] = InputMeta{Kind: "choose", N: v}
		return BVI(64, int64(v))
	})
	reg("Bytes", func(e *Exec, fn *ssa.Function, a []Value) Value {
		name := e.concreteStr(a[1], "input name")
		n := e.concreteInt(a[2], "Bytes length")
		if _, dup := e.InputMeta[name]; dup {
			panic(abortf("ENGINE duplicate harness input name %q", name))
		}
		e.InputMeta[name] = InputMeta{Kind: "bytes", N: n}
		arr := &ArrObj{E: make([]Value, n)}
		for i := 0; i < n; i++ {
			t := Var(fmt.Sprintf("%s!b%d", name, i), BVSort(8))
			e.Inputs = append(e.Inputs, t)
			arr.E[i] = t
		}
		return SliceV{A: arr, Len: n, Cap: n}
	})
	reg("Str", func(e *Exec, fn *ssa.Function, a []Value) Value {
		name := e.concreteStr(a[1], "input name")
		n := e.concreteInt(a[2], "Str length")
		if _, dup := e.InputMeta[name]; dup {
			panic(abortf("ENGINE duplicate harness input name %q", name))
		}
		e.InputMeta[name] = InputMeta{Kind: "bytes", N: n}
		bs := make([]*Term, n)
		for i := 0; i < n; i++ {
			t := Var(fmt.Sprintf("%s!b%d", name, i), BVSort(8))
			e.Inputs = append(e.Inputs, t)
			bs[i] = t
		}
		if n == 0 {
			return StrV{}
		}
		return StrV{Sym: bs}
	})
	bigIn := func(e *Exec, a []Value) *Term {
		name := e.concreteStr(a[1], "input name")
		t := e.declareInput(name, IntSort, "int")
		lo := e.concreteStr(a[2], "Int lower bound")
		hi := e.concreteStr(a[3], "Int upper bound")
		if lo != "" {
			b, ok := new(big.Int).SetString(lo, 10)
			if !ok {
				panic(abortf("ENGINE bad bound %q", lo))
			}
			e.assume(IGe(t, IntC(b)))
		}
		if hi != "" {
			b, ok := new(big.Int).SetString(hi, 10)
			if !ok {
				panic(abortf("ENGINE bad bound %q", hi))
			}
			e.assume(ILe(t, IntC(b)))
		}
		return t
	}
	reg("Int", func(e *Exec, fn *ssa.Function, a []Value) Value { return BigV{T: bigIn(e, a)} })
	reg("Big", func(e *Exec, fn *ssa.Function, a []Value) Value {
		return PtrV{C: e.newCell(BigV{T: bigIn(e, a)})}
	})
	reg("Assume", func(e *Exec, fn *ssa.Function, a []Value) Value {
		c := a[1].(*Term)
		if c.IsConst() {
			if !c.B {
				panic(abortf("INFEASIBLE assume(false)"))
			}
			return nil
		}
		e.Solver.Assert(c)
		if r := e.Solver.Check(); r == RUnsat {
			panic(abortf("INFEASIBLE assumption unsatisfiable on this path"))
		}
		return nil
	})
	reg("Assert", func(e *Exec, fn *ssa.Function, a []Value) Value {
		c := a[1].(*Term)
		label := e.concreteStr(a[2], "assert label")
		e.checkAssert(c, label)
		return nil
	})
	reg("Reach", func(e *Exec, fn *ssa.Function, a []Value) Value {
		label := e.concreteStr(a[1], "reach label")
		hr := e.H
		hr.mu.Lock()
		hr.Reached[label]++
		need := !hr.witnessFor[label] || len(hr.Witnesses) < 3
		hr.witnessFor[label] = true
		hr.mu.Unlock()
		if need {
			if r := e.Solver.Check(); r == RSat {
				w := &Witness{Label: label, Model: e.modelInputs(), Notes: e.evalNotes()}
				hr.mu.Lock()
				hr.Witnesses = append(hr.Witnesses, w)
				hr.mu.Unlock()
			}
		}
		return nil
	})
	reg("Panics", func(e *Exec, fn *ssa.Function, a []Value) (res Value) {
		depth := e.depth
		nframes := len(e.frames)
		defer func() {
			if r := recover(); r != nil {
				if gp, ok := r.(*GoPanic); ok {
					e.depth = depth
					e.frames = e.frames[:nframes]
					e.lastPanic = gp.Msg
					hr := e.H
					hr.mu.Lock()
					hr.Panics[gp.Msg]++
					hr.mu.Unlock()
					res = tTrue
					return
				}
				panic(r)
			}
		}()
		e.callValue(a[1], nil, nil)
		return tFalse
	})
	reg("Name", func(e *Exec, fn *ssa.Function, a []Value) Value {
		parts := a[1].(SliceV)
		var sb strings.Builder
		for i := 0; i < parts.Len; i++ {
			if i > 0 {
				sb.WriteByte('_')
			}
			iv := parts.A.E[parts.Off+i].(IfaceV)
			switch x := iv.V.(type) {
			case *Term:
				if !x.IsConst() {
					panic(abortf("UNSUPPORTED symbolic value in h.Name"))
				}
				if x.S.K == SBool {
					fmt.Fprint(&sb, x.B)
				} else if isSigned(iv.T) {
					fmt.Fprint(&sb, x.SVal())
				} else {
					fmt.Fprint(&sb, x.C)
				}
			case StrV:
				sb.WriteString(e.concreteStr(x, "h.Name part"))
			default:
				panic(abortf("UNSUPPORTED h.Name part %T", iv.V))
			}
		}
		return StrV{S: sb.String()}
	})
	note := func(e *Exec, fn *ssa.Function, a []Value) Value {
		label := e.concreteStr(a[1], "note label")
		switch v := a[2].(type) {
		case *Term:
			e.notes = append(e.notes, noteRec{label, v})
		case SliceV:
			bs := make([]*Term, v.Len)
			for i := range bs {
				bs[i] = v.A.E[v.Off+i].(*Term)
			}
			e.notes = append(e.notes, noteRec{label, bs})
		case BigV:
			if v.Nil {
				e.notes = append(e.notes, noteRec{label, "nil"})
			} else {
				e.notes = append(e.notes, noteRec{label, v.T})
			}
		}
		return nil
	}
	reg("NoteU64", note)
	reg("NoteBool", note)
	reg("NoteBytes", note)
	reg("NoteInt", note)
	reg("Symbolic", func(e *Exec, fn *ssa.Function, a []Value) Value { return tTrue })
	reg("Thorough", func(e *Exec, fn *ssa.Function, a []Value) Value { return BoolC(e.Cfg.Thorough) })
}

func (e *Exec) checkAssert(c *Term, label string) {
	hr := e.H
	if c.IsConst() {
		if c.B {
			hr.mu.Lock()
			hr.AssertsTrivial[label]++
			hr.mu.Unlock()
			return
		}
		if len(e.Cfg.Known[label]) == 0 {
			e.reportViolation("assert", label, "assertion is constant false on this path")
			panic(abortf("STOP after violated assertion"))
		}
		// known-finding regions apply: decide region / non-region on the path condition below
	}
	e.Solver.emit(c)
	e.Solver.Push()
	e.Solver.Assert(Not(c))
	// known findings: report the listed region separately, then exclude it
	if kfs := e.Cfg.Known[label]; len(kfs) > 0 {
		for _, in := range e.Inputs {
			e.Solver.emit(in)
		}
		regionText := func(kf *KnownFinding) string {
			if kf.RegionID != "" {
				t, ok := e.regions[kf.RegionID]
				if !ok {
					return "false"
				}
				return e.Solver.emit(t)
			}
			return kf.Region
		}
		for _, kf := range kfs {
			rt := regionText(kf)
			e.Solver.Push()
			e.Solver.send("(assert " + rt + ")")
			if e.Solver.Check() == RSat {
				e.reportKnown(label, kf)
			}
			e.Solver.Pop()
		}
		for _, kf := range kfs {
			e.Solver.send("(assert (not " + regionText(kf) + "))")
		}
	}
	r := e.Solver.Check()
	switch r {
	case RUnsat:
		hr.mu.Lock()
		hr.AssertsChecked[label]++
		doCross := e.Cfg.CrossCheck > 0 && hr.CrossChecked < e.Cfg.CrossCheck
		if doCross {
			hr.CrossChecked++
		}
		hr.mu.Unlock()
		if doCross {
			for kind, cr := range e.Solver.CrossCheck(30000) {
				hr.mu.Lock()
				switch cr {
				case RUnsat:
					hr.CrossAgree[kind]++
				case RUnknown:
					hr.CrossUnknown[kind]++
				case RSat:
					hr.Aborts["SOLVER: conflict on "+label+": "+e.Solver.kind+" says unsat, "+kind+" says sat"]++
				}
				hr.mu.Unlock()
			}
		}
	case RSat:
		e.reportViolation("assert", label, "")
	default:
		hr.mu.Lock()
		hr.UnknownAsserts++
		hr.Aborts["SOLVER: assertion "+label+" undecided ("+r.String()+")"]++
		hr.mu.Unlock()
	}
	e.Solver.Pop()
	// continue under the assumption that the assertion holds
	if c.IsConst() && !c.B {
		panic(abortf("STOP after violated assertion"))
	}
	e.Solver.Assert(c)
	if r == RSat || len(e.Cfg.Known[label]) > 0 {
		if e.Solver.Check() == RUnsat {
			panic(abortf("STOP assertion always violated on this path"))
		}
	}
}

func (e *Exec) reportKnown(label string, kf *KnownFinding) {
	hr := e.H
	key := "known:" + label + ":" + kf.Region + kf.RegionID
	hr.mu.Lock()
	n := hr.violCount[key]
	hr.violCount[key]++
	hr.mu.Unlock()
	if n >= 1 {
		return
	}
	v := &Violation{Harness: hr.Name, Label: label, Kind: "assert", Trail: append([]int{}, e.trail...), Known: kf}
	v.Model = e.modelInputs()
	v.Notes = e.evalNotes()
	hr.mu.Lock()
	hr.Violations = append(hr.Violations, v)
	hr.mu.Unlock()
}

// ---------- summary ----------

func (hr *HarnessRun) Summary() string {
	var sb strings.Builder
	fmt.Fprintf(&sb, "harness %s: paths=%d completed=%d infeasible=%d steps=%d branches=%d storeops=%d queries=%d (sat %d, unsat %d, unknown %d) solver=%.1fs wall=%.1fs\n",
		hr.Name, hr.Paths, hr.Completed, hr.infeasible, hr.Steps, hr.Branches, hr.StoreOps, hr.Queries, hr.Sat, hr.Unsat, hr.Unknown, hr.SolveTime.Seconds(), hr.Wall.Seconds())
	keys := func(m map[string]int) []string {
		var ks []string
		for k := range m {
			ks = append(ks, k)
		}
		sort.Strings(ks)
		return ks
	}
	for _, k := range keys(hr.AssertsChecked) {
		fmt.Fprintf(&sb, "  assert %-40s discharged=%d trivial=%d\n", k, hr.AssertsChecked[k], hr.AssertsTrivial[k])
	}
	for _, k := range keys(hr.AssertsTrivial) {
		if _, ok := hr.AssertsChecked[k]; !ok {
			fmt.Fprintf(&sb, "  assert %-40s discharged=0 trivial=%d\n", k, hr.AssertsTrivial[k])
		}
	}
	for _, k := range keys(hr.Reached) {
		fmt.Fprintf(&sb, "  reach  %-40s paths=%d\n", k, hr.Reached[k])
	}
	for _, k := range keys(hr.Panics) {
		fmt.Fprintf(&sb, "  caught-panic x%d: %s\n", hr.Panics[k], k)
	}
	for _, k := range keys(hr.Aborts) {
		fmt.Fprintf(&sb, "  ABORT x%d %s\n", hr.Aborts[k], k)
	}
	for _, k := range func() []string {
		var ks []string
		for k := range hr.DepGlobals {
			ks = append(ks, k)
		}
		sort.Strings(ks)
		return ks
	}() {
		fmt.Fprintf(&sb, "  dep-global read with defaulted value: %s\n", k)
	}
	for _, v := range hr.Violations {
		fmt.Fprintf(&sb, "  VIOLATION-CANDIDATE %s [%s] %s\n", v.Label, v.Kind, v.Detail)
	}
	return sb.String()
}

func fatalf(format string, a ...interface{}) {
	fmt.Fprintf(os.Stderr, format+"\n", a...)
	os.Exit(2)
}

func init() {
	reg := func(m string, f func(e *Exec, fn *ssa.Function, a []Value) Value) { intrinsics[vrtKey(m)] = f }
	opq := func(kind string) Value {
		return IfaceV{T: types.NewPointer(errDynType), V: OpaqueV{Kind: kind}}
	}
	reg("StoreService", func(e *Exec, fn *ssa.Function, a []Value) Value {
		return IfaceV{T: types.NewPointer(errDynType), V: OpaqueV{Kind: "storeservice", ID: e.concreteStr(a[1], "store name")}}
	})
	// TryTx: run f like baseapp runs a transaction: its writes are kept only if it succeeds
	reg("TryTx", func(e *Exec, fn *ssa.Function, a []Value) Value {
		snap := e.store_().snapshot()
		res := e.callValue(a[2], []Value{a[1]}, nil).(IfaceV)
		if res.T != nil {
			e.store_().restore(snap)
		}
		return res
	})
	// DryRun: run f and always discard its writes
	reg("DryRun", func(e *Exec, fn *ssa.Function, a []Value) Value {
		snap := e.store_().snapshot()
		res := e.callValue(a[2], []Value{a[1]}, nil)
		e.store_().restore(snap)
		return res
	})
	reg("Ctx", func(e *Exec, fn *ssa.Function, a []Value) Value { return &CtxV{F: map[string]Value{}} })
	reg("Codec", func(e *Exec, fn *ssa.Function, a []Value) Value { return opq("codec") })
	reg("AddressCodec", func(e *Exec, fn *ssa.Function, a []Value) Value { return opq("addrcodec") })
	reg("Logger", func(e *Exec, fn *ssa.Function, a []Value) Value { return opq("logger") })
	reg("ProposerEnv", func(e *Exec, fn *ssa.Function, a []Value) Value {
		return TupleV{V: []Value{opq("privkey"), opq("account"), opq("txconfig")}}
	})
	reg("GasUsed", func(e *Exec, fn *ssa.Function, a []Value) Value { return e.store_().Gas })
}

func init() {
	reg := func(m string, f func(e *Exec, fn *ssa.Function, a []Value) Value) { intrinsics[vrtKey(m)] = f }
	reg("B2I", func(e *Exec, fn *ssa.Function, a []Value) Value { return Ite(a[1].(*Term), BVI(64, 1), BVI(64, 0)) })
	reg("Both", func(e *Exec, fn *ssa.Function, a []Value) Value { return And(a[1].(*Term), a[2].(*Term)) })
	reg("Either", func(e *Exec, fn *ssa.Function, a []Value) Value { return Or(a[1].(*Term), a[2].(*Term)) })
	reg("Implies", func(e *Exec, fn *ssa.Function, a []Value) Value { return Implies(a[1].(*Term), a[2].(*Term)) })
	pick := func(e *Exec, fn *ssa.Function, a []Value) Value { return Ite(a[1].(*Term), a[2].(*Term), a[3].(*Term)) }
	reg("PickU64", pick)
	reg("PickInt", pick)
	reg("PickBytes", func(e *Exec, fn *ssa.Function, a []Value) Value {
		x, y := sliceTerms(a[2]), sliceTerms(a[3])
		if len(x) != len(y) {
			panic(abortf("ENGINE PickBytes length mismatch"))
		}
		out := make([]*Term, len(x))
		for i := range x {
			out[i] = Ite(a[1].(*Term), x[i], y[i])
		}
		return mkByteSliceOrNil(out)
	})
}

func defaultSolver() string {
	if k := os.Getenv("GOSYM_SOLVER"); k != "" {
		return k
	}
	if _, err := osexec.LookPath("z3-new"); err == nil {
		return "z3-new"
	}
	return "z3"
}

func init() {
	intrinsics[vrtKey("Log")] = func(e *Exec, fn *ssa.Function, a []Value) Value {
		if os.Getenv("GOSYM_DEBUG") != "" {
			fmt.Fprintf(os.Stderr, "LOG %s = %v\n", strOrSym(a[1]), e.fmtArg(a[2]))
		}
		return nil
	}
}

func init() {
	intrinsics[vrtKey("Region")] = func(e *Exec, fn *ssa.Function, a []Value) Value {
		id := e.concreteStr(a[1], "region id")
		if e.regions == nil {
			e.regions = map[string]*Term{}
		}
		if old, ok := e.regions[id]; ok {
			e.regions[id] = Or(old, a[2].(*Term))
		} else {
			e.regions[id] = a[2].(*Term)
		}
		return nil
	}
}
