package main

// One long-lived solver process per worker (z3 -in), driven with push/pop.

import (
	"bufio"
	"fmt"
	"io"
	"math/big"
	"os"
	"os/exec"
	"sort"
	"strings"
	"time"
)

type Solver struct {
	cmd      *exec.Cmd
	in       io.WriteCloser
	out      *bufio.Reader
	names    map[*Term]string // emitted definitions for the current path
	declared map[string]Sort  // declared vars / UFs (name -> sort signature string)
	ufSigs   map[string]string
	nextID   int
	depth    int
	scopes   []scope
	log      *os.File
	kind     string // "z3", "z3-new", "cvc5"

	Queries   int
	Sat       int
	Unsat     int
	Unknown   int
	SolveTime time.Duration
	timeoutMs int
	script    *strings.Builder // full transcript for cross-checking (optional)
	lines     [][]string       // commands per open scope (for one-shot fallback)
	Fallback  bool
	FallbackMs int
	OneShots  int
	oneShotVals map[string]string
	Inputs    func() []*Term
}

type scope struct {
	names    []*Term
	declared []string
	ufs      []string
}

func NewSolver(kind string, timeoutMs int, logPath string) (*Solver, error) {
	var cmd *exec.Cmd
	switch kind {
	case "z3":
		cmd = exec.Command("z3", "-in", "-smt2")
	case "z3-new":
		cmd = exec.Command("z3-new", "-in", "-smt2")
	case "cvc5":
		cmd = exec.Command("cvc5", "--incremental", "--lang=smt2", "--produce-models", fmt.Sprintf("--tlimit-per=%d", timeoutMs))
	default:
		return nil, fmt.Errorf("unknown solver %s", kind)
	}
	in, err := cmd.StdinPipe()
	if err != nil {
		return nil, err
	}
	out, err := cmd.StdoutPipe()
	if err != nil {
		return nil, err
	}
	cmd.Stderr = cmd.Stdout
	if err := cmd.Start(); err != nil {
		return nil, err
	}
	s := &Solver{cmd: cmd, in: in, out: bufio.NewReaderSize(out, 1<<20), kind: kind, timeoutMs: timeoutMs,
		names: map[*Term]string{}, declared: map[string]Sort{}, ufSigs: map[string]string{}}
	if logPath != "" {
		s.log, _ = os.Create(logPath)
	}
	s.send("(set-option :produce-models true)")
	if kind != "cvc5" {
		s.send(fmt.Sprintf("(set-option :timeout %d)", timeoutMs))
	}
	s.send("(set-logic ALL)")
	s.scopes = []scope{{}}
	s.lines = [][]string{nil}
	return s, nil
}

func (s *Solver) Close() {
	if s == nil || s.cmd == nil {
		return
	}
	s.in.Close()
	s.cmd.Process.Kill()
	s.cmd.Wait()
	if s.log != nil {
		s.log.Close()
	}
}

func (s *Solver) send(line string) {
	if s.log != nil {
		fmt.Fprintln(s.log, line)
	}
	if s.script != nil {
		s.script.WriteString(line)
		s.script.WriteByte('\n')
	}
	io.WriteString(s.in, line)
	io.WriteString(s.in, "\n")
	if s.Fallback && len(s.lines) > 0 {
		switch {
		case line == "(push 1)":
			s.lines = append(s.lines, nil)
		case line == "(pop 1)":
			if len(s.lines) > 1 {
				s.lines = s.lines[:len(s.lines)-1]
			}
		case line == "(check-sat)" || strings.HasPrefix(line, "(get-value") || strings.HasPrefix(line, "(set-"):
		default:
			s.lines[len(s.lines)-1] = append(s.lines[len(s.lines)-1], line)
		}
	}
}

func (s *Solver) Push() {
	if len(s.scopes) == 1 && os.Getenv("GOSYM_DUMP_UNKNOWN") != "" {
		s.script = &strings.Builder{}
		s.script.WriteString("(set-option :produce-models true)\n(set-logic ALL)\n")
	}
	s.send("(push 1)")
	s.scopes = append(s.scopes, scope{})
}

func (s *Solver) Pop() {
	s.send("(pop 1)")
	top := s.scopes[len(s.scopes)-1]
	for _, t := range top.names {
		delete(s.names, t)
	}
	for _, d := range top.declared {
		delete(s.declared, d)
	}
	for _, d := range top.ufs {
		delete(s.ufSigs, d)
	}
	s.scopes = s.scopes[:len(s.scopes)-1]
}

func (s *Solver) top() *scope { return &s.scopes[len(s.scopes)-1] }

// emit returns the SMT-LIB text naming term t, defining helper symbols as needed.
func (s *Solver) emit(t *Term) string {
	if t.Op == "const" {
		return constString(t)
	}
	if n, ok := s.names[t]; ok {
		return n
	}
	if t.Op == "var" {
		if old, ok := s.declared[t.Name]; ok {
			if old != t.S {
				panic(fmt.Sprintf("var %s redeclared with sort %v (was %v)", t.Name, t.S, old))
			}
		} else {
			s.send(fmt.Sprintf("(declare-const %s %s)", t.Name, t.S))
			s.declared[t.Name] = t.S
			s.top().declared = append(s.top().declared, t.Name)
		}
		return t.Name
	}
	// iterative post-order to avoid deep recursion on long chains
	args := make([]string, len(t.Args))
	for i, a := range t.Args {
		args[i] = s.emit(a)
	}
	if t.Op == "uf" {
		sig := ""
		for _, a := range t.Args {
			sig += a.S.String() + " "
		}
		sig = "(" + strings.TrimSpace(sig) + ") " + t.S.String()
		if old, ok := s.ufSigs[t.Name]; ok {
			if old != sig {
				panic(fmt.Sprintf("UF %s used with two signatures: %s / %s", t.Name, old, sig))
			}
		} else {
			s.send(fmt.Sprintf("(declare-fun %s %s)", t.Name, sig))
			s.ufSigs[t.Name] = sig
			s.top().ufs = append(s.top().ufs, t.Name)
		}
	}
	var body string
	if len(args) == 0 {
		body = opHead(t)
	} else {
		body = "(" + opHead(t) + " " + strings.Join(args, " ") + ")"
	}
	s.nextID++
	name := fmt.Sprintf("t!%d", s.nextID)
	s.send(fmt.Sprintf("(define-fun %s () %s %s)", name, t.S, body))
	s.names[t] = name
	s.top().names = append(s.top().names, t)
	return name
}

func (s *Solver) Assert(t *Term) {
	if t.IsConst() && t.B {
		return
	}
	s.send("(assert " + s.emit(t) + ")")
}

var dumpN int

type Result int

const (
	RSat Result = iota
	RUnsat
	RUnknown
	RError
)

func (r Result) String() string { return [...]string{"sat", "unsat", "unknown", "error"}[r] }

func (s *Solver) readLine() string {
	line, err := s.out.ReadString('\n')
	if err != nil {
		return "(error \"solver died: " + err.Error() + "\")"
	}
	return strings.TrimSpace(line)
}

func (s *Solver) Check() Result {
	s.oneShotVals = nil
	r := s.checkInc()
	if r == RUnknown && s.Fallback {
		if r2 := s.oneShot(); r2 != RUnknown {
			s.Unknown--
			return r2
		}
	}
	return r
}

func (s *Solver) checkInc() Result {
	start := time.Now()
	s.send("(check-sat)")
	s.Queries++
	var r Result
	for {
		line := s.readLine()
		if line == "" {
			continue
		}
		switch {
		case line == "sat":
			r = RSat
			s.Sat++
		case line == "unsat":
			r = RUnsat
			s.Unsat++
		case line == "unknown" || line == "timeout":
			r = RUnknown
			s.Unknown++
			if s.script != nil {
				dumpN++
				os.WriteFile(fmt.Sprintf("%s/unknown_%d_%d.smt2", os.Getenv("GOSYM_DUMP_UNKNOWN"), os.Getpid(), dumpN), []byte(s.script.String()), 0o644)
			}
		case strings.HasPrefix(line, "(error"):
			fmt.Fprintln(os.Stderr, "SOLVER ERROR:", line)
			r = RError
			s.Unknown++
		default:
			// warnings etc.
			if s.log != nil {
				fmt.Fprintln(s.log, "; <<", line)
			}
			continue
		}
		break
	}
	s.SolveTime += time.Since(start)
	return r
}

// CheckWith: is (current assertions ∧ t) satisfiable?
func (s *Solver) CheckWith(t *Term) Result {
	if t.IsConst() {
		if !t.B {
			return RUnsat
		}
	}
	name := s.emit(t) // definitions stay in the enclosing scope and are reused
	s.Push()
	s.send("(assert " + name + ")")
	r := s.Check()
	s.Pop()
	return r
}

// Model values for the given variables (must be called right after a sat Check, same scope).
func (s *Solver) Values(vars []*Term) map[string]*Term {
	res := map[string]*Term{}
	if len(vars) == 0 {
		return res
	}
	if s.oneShotVals != nil {
		for _, v := range vars {
			if txt, ok := s.oneShotVals[v.Name]; ok {
				if t := parseConst(txt, v.S); t != nil {
					res[v.Name] = t
				}
			}
		}
		return res
	}
	sort.Slice(vars, func(i, j int) bool { return vars[i].Name < vars[j].Name })
	// chunk to keep lines reasonable
	for i := 0; i < len(vars); i += 200 {
		j := i + 200
		if j > len(vars) {
			j = len(vars)
		}
		var names []string
		for _, v := range vars[i:j] {
			names = append(names, s.emit(v))
		}
		s.send("(get-value (" + strings.Join(names, " ") + "))")
		text := s.readSexp()
		vals := parseGetValue(text)
		for k, v := range vals {
			var srt Sort
			for _, vv := range vars[i:j] {
				if vv.Name == k {
					srt = vv.S
				}
			}
			t := parseConst(v, srt)
			if t != nil {
				res[k] = t
			}
		}
	}
	return res
}

func (s *Solver) readSexp() string {
	var sb strings.Builder
	depth := 0
	started := false
	for {
		line, err := s.out.ReadString('\n')
		if err != nil {
			return sb.String()
		}
		for _, c := range line {
			if c == '(' {
				depth++
				started = true
			} else if c == ')' {
				depth--
			}
		}
		sb.WriteString(line)
		if started && depth <= 0 {
			return sb.String()
		}
	}
}

// parseGetValue parses "((a v) (b v))" into name -> value text.
func parseGetValue(text string) map[string]string {
	res := map[string]string{}
	toks := tokenize(text)
	// expect ( ( name value ) ... )
	pos := 0
	if pos >= len(toks) || toks[pos] != "(" {
		return res
	}
	pos++
	for pos < len(toks) && toks[pos] == "(" {
		pos++
		name := toks[pos]
		pos++
		// value: either atom or parenthesised
		start := pos
		if toks[pos] == "(" {
			d := 0
			for {
				if toks[pos] == "(" {
					d++
				} else if toks[pos] == ")" {
					d--
				}
				pos++
				if d == 0 {
					break
				}
			}
		} else {
			pos++
		}
		res[name] = strings.Join(toks[start:pos], " ")
		pos++ // closing )
	}
	return res
}

func tokenize(s string) []string {
	var toks []string
	cur := ""
	flush := func() {
		if cur != "" {
			toks = append(toks, cur)
			cur = ""
		}
	}
	for _, c := range s {
		switch c {
		case '(', ')':
			flush()
			toks = append(toks, string(c))
		case ' ', '\n', '\t', '\r':
			flush()
		default:
			cur += string(c)
		}
	}
	flush()
	return toks
}

func parseConst(v string, srt Sort) *Term {
	v = strings.TrimSpace(v)
	switch srt.K {
	case SBool:
		return BoolC(v == "true")
	case SBV:
		if strings.HasPrefix(v, "#x") {
			n, _ := new(big.Int).SetString(v[2:], 16)
			return BVC(srt.W, n)
		}
		if strings.HasPrefix(v, "#b") {
			n, _ := new(big.Int).SetString(v[2:], 2)
			return BVC(srt.W, n)
		}
		// (_ bv123 64)
		toks := tokenize(v)
		for _, t := range toks {
			if strings.HasPrefix(t, "bv") {
				n, ok := new(big.Int).SetString(t[2:], 10)
				if ok {
					return BVC(srt.W, n)
				}
			}
		}
	case SInt:
		toks := tokenize(v)
		neg := false
		for _, t := range toks {
			if t == "-" {
				neg = true
			}
			if n, ok := new(big.Int).SetString(t, 10); ok {
				if neg {
					n.Neg(n)
				}
				return IntC(n)
			}
		}
	}
	return nil
}

// oneShot re-decides the current query in a fresh non-incremental solver process (z3's
// incremental core skips the preprocessing that makes many wide bit-vector/UF queries
// trivial). The flattened script is everything asserted in the open scopes.
func (s *Solver) oneShot() Result {
	start := time.Now()
	s.OneShots++
	var sb strings.Builder
	sb.WriteString("(set-option :produce-models true)\n(set-logic ALL)\n")
	for _, sc := range s.lines {
		for _, l := range sc {
			sb.WriteString(l)
			sb.WriteByte('\n')
		}
	}
	sb.WriteString("(check-sat)\n")
	var names []string
	if s.Inputs != nil {
		for _, v := range s.Inputs() {
			if _, ok := s.declared[v.Name]; ok {
				names = append(names, v.Name)
			}
		}
	}
	bin := s.kind
	ms := s.FallbackMs
	if ms <= 0 {
		ms = 60000
	}
	var args []string
	switch bin {
	case "cvc5":
		args = []string{"--lang=smt2", "--produce-models", fmt.Sprintf("--tlimit=%d", ms)}
	default:
		args = []string{"-in", "-smt2", fmt.Sprintf("-t:%d", ms)}
	}
	cmd := exec.Command(bin, args...)
	stdin, _ := cmd.StdinPipe()
	stdout, _ := cmd.StdoutPipe()
	if err := cmd.Start(); err != nil {
		return RUnknown
	}
	io.WriteString(stdin, sb.String())
	rd := bufio.NewReaderSize(stdout, 1<<20)
	res := RUnknown
	for {
		line, err := rd.ReadString('\n')
		l := strings.TrimSpace(line)
		if l == "sat" {
			res = RSat
			break
		}
		if l == "unsat" {
			res = RUnsat
			break
		}
		if l == "unknown" || l == "timeout" || strings.HasPrefix(l, "(error") || err != nil {
			break
		}
	}
	if res == RSat && len(names) > 0 {
		s.oneShotVals = map[string]string{}
		for i := 0; i < len(names); i += 200 {
			j := i + 200
			if j > len(names) {
				j = len(names)
			}
			io.WriteString(stdin, "(get-value ("+strings.Join(names[i:j], " ")+"))\n")
			old := s.out
			s.out = rd
			text := s.readSexp()
			s.out = old
			for k, v := range parseGetValue(text) {
				s.oneShotVals[k] = v
			}
		}
	}
	stdin.Close()
	cmd.Process.Kill()
	cmd.Wait()
	s.SolveTime += time.Since(start)
	switch res {
	case RSat:
		s.Sat++
	case RUnsat:
		s.Unsat++
	}
	return res
}

// CrossCheck re-decides the current query (everything asserted in the open scopes) with the
// other installed solvers in fresh processes and returns their verdicts.
func (s *Solver) CrossCheck(ms int) map[string]Result {
	var sb strings.Builder
	sb.WriteString("(set-logic ALL)\n")
	for _, sc := range s.lines {
		for _, l := range sc {
			sb.WriteString(l)
			sb.WriteByte('\n')
		}
	}
	sb.WriteString("(check-sat)\n")
	out := map[string]Result{}
	for _, kind := range []string{"z3", "z3-new", "cvc5"} {
		if kind == s.kind {
			continue
		}
		var args []string
		if kind == "cvc5" {
			args = []string{"--lang=smt2", fmt.Sprintf("--tlimit=%d", ms)}
		} else {
			args = []string{"-in", "-smt2", fmt.Sprintf("-t:%d", ms)}
		}
		cmd := exec.Command(kind, args...)
		cmd.Stdin = strings.NewReader(sb.String())
		raw, _ := cmd.Output()
		res := RUnknown
		for _, l := range strings.Split(string(raw), "\n") {
			switch strings.TrimSpace(l) {
			case "sat":
				res = RSat
			case "unsat":
				res = RUnsat
			}
		}
		out[kind] = res
	}
	return out
}
