package main

// Native replay of solver models against the real build: the same harness file is
// compiled with `go test -overlay`, vrt reads the model and runs the harness on the
// real code. A counterexample is only reported if it reproduces.

import (
	"bytes"
	"encoding/json"
	"fmt"
	"os"
	"os/exec"
	"path/filepath"
	"sort"
	"strings"
	"time"
)

type ReplayCase struct {
	ID      string // unique id within the batch
	Harness string
	Model   map[string]ModelInput
	Notes   map[string]string // predicted by the encoding
}

type ReplayResult struct {
	ID          string
	Ran         bool
	AssertFails []string
	Reached     []string
	Notes       map[string]string
	Panic       string
	AssumeFail  bool
	Raw         string
	Ended       bool
}

const replayTestTmpl = `package %s

import (
	"fmt"
	"os"
	"strconv"
	"strings"
	"testing"

	"github.com/goatnetwork/goat/zzverif/vrt"
)

var zzVerifHarnesses = map[string]func(*vrt.H){
%s}

func TestZZVerifReplay(t *testing.T) {
	for _, m := range strings.Split(os.Getenv("VRT_MODELS"), ",") {
		if m == "" {
			continue
		}
		t.Run("m", func(t *testing.T) {
			fmt.Printf("VRT-BEGIN %%s\n", m)
			defer fmt.Printf("VRT-END %%s\n", m)
			defer func() {
				if r := recover(); r != nil {
					fmt.Printf("VRT-UNCAUGHT-PANIC %%v\n", r)
				}
			}()
			// environment nondeterminism (map iteration order, scheduling) is resampled by
			// repeating the run; the first failing repetition is reported
			repeat := 1
			if r, err := strconv.Atoi(os.Getenv("VRT_REPEAT")); err == nil && r > 1 {
				repeat = r
			}
			for i := 0; i < repeat; i++ {
				h := vrt.NewReplay(t, m)
				h.Quiet = i+1 < repeat
				f := zzVerifHarnesses[h.HarnessName()]
				if f == nil {
					t.Fatalf("unknown harness %%q", h.HarnessName())
				}
				f(h)
				if h.Failed() || i+1 == repeat {
					h.Flush()
					h.Done()
					break
				}
			}
		})
	}
}
`

// replayBatch runs all cases of one package in a single `go test` invocation.
// replayBatch runs the cases; when the test process dies in the middle of a case (a panic in
// a goroutine kills the binary - exactly what "crashes the node" means), that case is marked
// as crashed and the remaining cases are run in a fresh process.
func replayBatch(dir string, pkgPath string, pkgName string, harnessNames []string, cases []*ReplayCase, race bool, repeat int, overlayPaths map[string]string) (map[string]*ReplayResult, string, error) {
	all := map[string]*ReplayResult{}
	var allText strings.Builder
	remaining := cases
	for round := 0; round < 8 && len(remaining) > 0; round++ {
		res, text, err := replayBatchOnce(dir, pkgPath, pkgName, harnessNames, remaining, race, repeat, overlayPaths)
		allText.WriteString(text)
		if err != nil && len(res) == 0 {
			return all, allText.String(), err
		}
		var next []*ReplayCase
		crashedSeen := false
		for _, c := range remaining {
			r := res[c.ID]
			switch {
			case r != nil && r.Ended:
				all[c.ID] = r
			case r != nil && !r.Ended && !crashedSeen:
				crashedSeen = true
				r.Panic = "test process died during this replay: " + firstPanicLine(r.Raw+text)
				all[c.ID] = r
			default:
				next = append(next, c)
			}
		}
		if len(next) == len(remaining) {
			break
		}
		remaining = next
	}
	return all, allText.String(), nil
}

func firstPanicLine(text string) string {
	for _, l := range strings.Split(text, "\n") {
		if strings.HasPrefix(strings.TrimSpace(l), "panic:") {
			return strings.TrimSpace(l)
		}
	}
	return "no panic line found"
}

func replayBatchOnce(dir string, pkgPath string, pkgName string, harnessNames []string, cases []*ReplayCase, race bool, repeat int, overlayPaths map[string]string) (map[string]*ReplayResult, string, error) {
	if err := os.MkdirAll(dir, 0o755); err != nil {
		return nil, "", err
	}
	rel := strings.TrimPrefix(pkgPath, repoMod+"/")
	// model files
	var modelPaths []string
	for _, c := range cases {
		mp := filepath.Join(dir, c.ID+".model.json")
		b, _ := json.MarshalIndent(map[string]interface{}{"harness": c.Harness, "inputs": c.Model, "predicted_notes": c.Notes}, "", " ")
		if err := os.WriteFile(mp, b, 0o644); err != nil {
			return nil, "", err
		}
		modelPaths = append(modelPaths, mp)
	}
	// test file
	sort.Strings(harnessNames)
	var entries strings.Builder
	for _, n := range harnessNames {
		fmt.Fprintf(&entries, "\t%q: %s,\n", n, n)
	}
	testFile := filepath.Join(dir, "zz_verif_replay_test.go")
	if err := os.WriteFile(testFile, []byte(fmt.Sprintf(replayTestTmpl, pkgName, entries.String())), 0o644); err != nil {
		return nil, "", err
	}
	// overlay
	repl := map[string]string{}
	for v, r := range overlayPaths {
		repl[v] = r
	}
	repl[filepath.Join(repoDir(), rel, "zz_verif_replay_test.go")] = testFile
	ovb, _ := json.MarshalIndent(map[string]interface{}{"Replace": repl}, "", " ")
	ovFile := filepath.Join(dir, "overlay.json")
	if err := os.WriteFile(ovFile, ovb, 0o644); err != nil {
		return nil, "", err
	}
	raceFlag := ""
	if race {
		raceFlag = "-race "
	}
	script := fmt.Sprintf("#!/bin/sh\n# replay of solver models against the real build\nexport GOFLAGS=-mod=mod GOPROXY=off GOSUMDB=off GOTOOLCHAIN=local\ncd %s && VRT_REPEAT=${VRT_REPEAT:-%d} VRT_MODELS=${VRT_MODELS:-%s} exec go test %s-vet=off -count=1 -timeout 20m -overlay %s -run '^TestZZVerifReplay$' -v ./%s/\n",
		repoDir(), repeat, strings.Join(modelPaths, ","), raceFlag, ovFile, rel)
	runsh := filepath.Join(dir, "run.sh")
	if err := os.WriteFile(runsh, []byte(script), 0o755); err != nil {
		return nil, "", err
	}
	cmd := exec.Command("/bin/sh", runsh)
	var out bytes.Buffer
	cmd.Stdout = &out
	cmd.Stderr = &out
	start := time.Now()
	err := cmd.Run()
	_ = start
	text := out.String()
	os.WriteFile(filepath.Join(dir, "output.txt"), out.Bytes(), 0o644)
	res := map[string]*ReplayResult{}
	var cur *ReplayResult
	byPath := map[string]*ReplayCase{}
	for i, c := range cases {
		byPath[modelPaths[i]] = c
	}
	for _, line := range strings.Split(text, "\n") {
		line = strings.TrimSpace(line)
		switch {
		case strings.HasPrefix(line, "VRT-BEGIN "):
			c := byPath[strings.TrimPrefix(line, "VRT-BEGIN ")]
			if c != nil {
				cur = &ReplayResult{ID: c.ID, Ran: true, Notes: map[string]string{}}
				res[c.ID] = cur
			}
		case strings.HasPrefix(line, "VRT-END "):
			if cur != nil {
				cur.Ended = true
			}
			cur = nil
		case cur == nil:
		case strings.HasPrefix(line, "VRT-ASSERT-FAIL "):
			cur.AssertFails = append(cur.AssertFails, strings.TrimPrefix(line, "VRT-ASSERT-FAIL "))
		case strings.HasPrefix(line, "VRT-REACH "):
			cur.Reached = append(cur.Reached, strings.TrimPrefix(line, "VRT-REACH "))
		case strings.HasPrefix(line, "VRT-NOTE "):
			kv := strings.SplitN(strings.TrimPrefix(line, "VRT-NOTE "), "=", 2)
			if len(kv) == 2 {
				cur.Notes[kv[0]] = kv[1]
			}
		case strings.HasPrefix(line, "VRT-UNCAUGHT-PANIC "):
			cur.Panic = strings.TrimPrefix(line, "VRT-UNCAUGHT-PANIC ")
		case strings.HasPrefix(line, "VRT-ASSUME-FAIL"):
			cur.AssumeFail = true
		}
		if cur != nil {
			cur.Raw += line + "\n"
		}
	}
	if len(res) == 0 && err != nil {
		return res, text, fmt.Errorf("replay build/run failed: %v", err)
	}
	return res, text, nil
}
