package main

import (
	"encoding/hex"
	"fmt"
	"go/types"
	"math/big"
	"regexp"
	"sort"
	"strconv"
	"strings"

	"golang.org/x/tools/go/ssa"
)

const sdkT = "github.com/cosmos/cosmos-sdk/types"

// ---------- sdk.Context ----------

func (c *CtxV) get(k string) Value {
	if c.F == nil {
		return nil
	}
	return c.F[k]
}

func (c *CtxV) with(k string, v Value) *CtxV {
	n := &CtxV{F: map[string]Value{}}
	for kk, vv := range c.F {
		n.F[kk] = vv
	}
	n.F[k] = v
	return n
}

func ctxOf(v Value) *CtxV {
	switch x := v.(type) {
	case *CtxV:
		return x
	case IfaceV:
		if x.T == nil {
			panic(&GoPanic{Msg: "nil context"})
		}
		return ctxOf(x.V)
	}
	panic(abortf("UNSUPPORTED context value %T", v))
}

func (e *Exec) ctxMethod(c *CtxV, name string, args []Value) Value {
	switch name {
	case "Value":
		return IfaceV{}
	case "Done":
		return OpaqueV{Kind: "chan"}
	case "Err":
		return IfaceV{}
	case "Deadline":
		return TupleV{V: []Value{TimeV{T: BVC(128, zeroTimeNanos)}, tFalse}}
	}
	panic(abortf("UNSUPPORTED context method %s", name))
}

func (e *Exec) ctxField(c *CtxV, k string, def func() Value) Value {
	if v := c.get(k); v != nil {
		return v
	}
	return def()
}

func init() {
	I := intrinsics
	C := "(" + sdkT + ".Context)."
	I[sdkT+".UnwrapSDKContext"] = func(e *Exec, fn *ssa.Function, a []Value) Value { return ctxOf(a[0]) }
	I[sdkT+".WrapSDKContext"] = func(e *Exec, fn *ssa.Function, a []Value) Value {
		return IfaceV{T: fn.Signature.Params().At(0).Type(), V: ctxOf(a[0])}
	}
	I[C+"BlockHeight"] = func(e *Exec, fn *ssa.Function, a []Value) Value {
		return e.ctxField(ctxOf(a[0]), "height", func() Value { return BVI(64, 0) })
	}
	I[C+"BlockTime"] = func(e *Exec, fn *ssa.Function, a []Value) Value {
		return e.ctxField(ctxOf(a[0]), "time", func() Value { return TimeV{T: BVC(128, zeroTimeNanos)} })
	}
	I[C+"ChainID"] = func(e *Exec, fn *ssa.Function, a []Value) Value {
		return e.ctxField(ctxOf(a[0]), "chainid", func() Value { return StrV{} })
	}
	I[C+"ExecMode"] = func(e *Exec, fn *ssa.Function, a []Value) Value {
		return e.ctxField(ctxOf(a[0]), "execmode", func() Value { return BVU(8, 0) })
	}
	I[C+"HeaderHash"] = func(e *Exec, fn *ssa.Function, a []Value) Value {
		return e.ctxField(ctxOf(a[0]), "headerhash", func() Value { return SliceV{} })
	}
	I[C+"VoteInfos"] = func(e *Exec, fn *ssa.Function, a []Value) Value {
		return e.ctxField(ctxOf(a[0]), "voteinfos", func() Value { return SliceV{} })
	}
	I[C+"CometInfo"] = func(e *Exec, fn *ssa.Function, a []Value) Value {
		return e.ctxField(ctxOf(a[0]), "cometinfo", func() Value { return IfaceV{} })
	}
	I[C+"ConsensusParams"] = func(e *Exec, fn *ssa.Function, a []Value) Value {
		return e.ctxField(ctxOf(a[0]), "consparams", func() Value { return e.zero(fn.Signature.Results().At(0).Type()) })
	}
	I[C+"EventManager"] = func(e *Exec, fn *ssa.Function, a []Value) Value {
		return IfaceV{T: types.NewPointer(errDynType), V: OpaqueV{Kind: "eventmanager"}}
	}
	I[C+"Logger"] = func(e *Exec, fn *ssa.Function, a []Value) Value {
		return IfaceV{T: types.NewPointer(errDynType), V: OpaqueV{Kind: "logger"}}
	}
	I[C+"GasMeter"] = func(e *Exec, fn *ssa.Function, a []Value) Value {
		return IfaceV{T: types.NewPointer(errDynType), V: OpaqueV{Kind: "gasmeter"}}
	}
	I[C+"IsCheckTx"] = func(e *Exec, fn *ssa.Function, a []Value) Value {
		return e.ctxField(ctxOf(a[0]), "checktx", func() Value { return tFalse })
	}
	with := func(m, key string) {
		I[C+m] = func(e *Exec, fn *ssa.Function, a []Value) Value { return ctxOf(a[0]).with(key, a[1]) }
	}
	with("WithBlockHeight", "height")
	with("WithBlockTime", "time")
	with("WithChainID", "chainid")
	with("WithExecMode", "execmode")
	with("WithHeaderHash", "headerhash")
	with("WithVoteInfos", "voteinfos")
	with("WithCometInfo", "cometinfo")
	with("WithConsensusParams", "consparams")
	with("WithIsCheckTx", "checktx")
	I[C+"WithEventManager"] = func(e *Exec, fn *ssa.Function, a []Value) Value { return ctxOf(a[0]) }
	I[C+"WithGasMeter"] = func(e *Exec, fn *ssa.Function, a []Value) Value { return ctxOf(a[0]) }
	I[C+"WithLogger"] = func(e *Exec, fn *ssa.Function, a []Value) Value { return ctxOf(a[0]) }
	I[C+"WithContext"] = func(e *Exec, fn *ssa.Function, a []Value) Value { return ctxOf(a[0]) }
	I[C+"Context"] = func(e *Exec, fn *ssa.Function, a []Value) Value {
		return IfaceV{T: fn.Signature.Recv().Type(), V: ctxOf(a[0])}
	}
	I["context.Background"] = func(e *Exec, fn *ssa.Function, a []Value) Value {
		return IfaceV{T: types.NewPointer(errDynType), V: &CtxV{F: map[string]Value{"background": tTrue}}}
	}
	I["context.TODO"] = I["context.Background"]
	I["context.WithTimeout"] = func(e *Exec, fn *ssa.Function, a []Value) Value {
		cancel := FuncV{Go: func(e *Exec, args []Value) Value { return nil }}
		return TupleV{V: []Value{a[0], cancel}}
	}
	I["context.WithCancel"] = func(e *Exec, fn *ssa.Function, a []Value) Value {
		cancel := FuncV{Go: func(e *Exec, args []Value) Value { return nil }}
		return TupleV{V: []Value{a[0], cancel}}
	}

	// ---------- time ----------
	// time.Time = signed 128-bit count of nanoseconds since the Unix epoch (the zero Time,
	// year 1, does not fit 64 bits). Duration results are truncated to 64 bits; Go saturates
	// instead, which only differs for spans above 292 years (outside the stated bound).
	T := "(time.Time)."
	tv := func(v Value) *Term { return v.(TimeV).T }
	e9 := BVC(128, big.NewInt(1000000000))
	I[T+"Add"] = func(e *Exec, fn *ssa.Function, a []Value) Value { return TimeV{T: BVAdd(tv(a[0]), SExt(128, a[1].(*Term)))} }
	I[T+"Sub"] = func(e *Exec, fn *ssa.Function, a []Value) Value { return Extract(63, 0, BVSub(tv(a[0]), tv(a[1]))) }
	I[T+"After"] = func(e *Exec, fn *ssa.Function, a []Value) Value { return BVSlt(tv(a[1]), tv(a[0])) }
	I[T+"Before"] = func(e *Exec, fn *ssa.Function, a []Value) Value { return BVSlt(tv(a[0]), tv(a[1])) }
	I[T+"Equal"] = func(e *Exec, fn *ssa.Function, a []Value) Value { return Eq(tv(a[0]), tv(a[1])) }
	I[T+"Compare"] = func(e *Exec, fn *ssa.Function, a []Value) Value {
		return Ite(BVSlt(tv(a[0]), tv(a[1])), BVI(64, -1), Ite(Eq(tv(a[0]), tv(a[1])), BVI(64, 0), BVI(64, 1)))
	}
	I[T+"UTC"] = func(e *Exec, fn *ssa.Function, a []Value) Value { return a[0] }
	I[T+"IsZero"] = func(e *Exec, fn *ssa.Function, a []Value) Value { return Eq(tv(a[0]), BVC(128, zeroTimeNanos)) }
	I[T+"Unix"] = func(e *Exec, fn *ssa.Function, a []Value) Value {
		if s := a[0].(TimeV).Secs; s != nil {
			return s
		}
		t := tv(a[0])
		// floor division by 1e9
		q := BVSDiv(t, e9)
		r := BVSRem(t, e9)
		q = Ite(BVSlt(r, BVU(128, 0)), BVSub(q, BVU(128, 1)), q)
		return Extract(63, 0, q)
	}
	I[T+"UnixNano"] = func(e *Exec, fn *ssa.Function, a []Value) Value { return Extract(63, 0, tv(a[0])) }
	I[T+"String"] = func(e *Exec, fn *ssa.Function, a []Value) Value { return StrV{S: "<time>"} }
	I["time.Unix"] = func(e *Exec, fn *ssa.Function, a []Value) Value {
		return TimeV{T: BVAdd(BVMul(SExt(128, a[0].(*Term)), e9), SExt(128, a[1].(*Term)))}
	}
	I["time.Now"] = func(e *Exec, fn *ssa.Function, a []Value) Value {
		// environment nondeterminism: a fresh arbitrary instant on every call, composed of
		// seconds and nanoseconds so that Unix() needs no division. Environment contract: the
		// wall clock is between 2023-11-14 (1.7e9 s) and the year 2200 and does not run backwards.
		secs := e.freshVar("env_time_now_s", BVSort(64))
		nanos := e.freshVar("env_time_now_ns", BVSort(32))
		e.assume(And(BVUle(BVU(64, 1700000000), secs), BVUlt(secs, BVU(64, 7258118400)), BVUlt(nanos, BVU(32, 1000000000))))
		if e.lastNow != nil {
			e.assume(BVUle(e.lastNow, secs))
		}
		e.lastNow = secs
		e.EnvNondet = append(e.EnvNondet, "time.Now")
		t := BVAdd(BVMul(ZExt(128, secs), BVC(128, big.NewInt(1000000000))), ZExt(128, nanos))
		return TimeV{T: t, Secs: secs}
	}
	I["time.After"] = func(e *Exec, fn *ssa.Function, a []Value) Value { return OpaqueV{Kind: "timerchan"} }
	I["(time.Duration).String"] = func(e *Exec, fn *ssa.Function, a []Value) Value { return StrV{S: "<duration>"} }
	I["(time.Duration).Seconds"] = func(e *Exec, fn *ssa.Function, a []Value) Value {
		d := a[0].(*Term)
		if d.IsConst() {
			return FloatV{F: float64(d.I64()) / 1e9}
		}
		panic(abortf("UNSUPPORTED symbolic Duration.Seconds"))
	}
	I["crypto/rand.Read"] = func(e *Exec, fn *ssa.Function, a []Value) Value {
		s := a[0].(SliceV)
		for i := 0; i < s.Len; i++ {
			s.A.E[s.Off+i] = e.freshVar("env_rand", BVSort(8))
		}
		e.EnvNondet = append(e.EnvNondet, "crypto/rand.Read")
		return TupleV{V: []Value{BVI(64, int64(s.Len)), IfaceV{}}}
	}

	// ---------- addresses ----------
	for _, n := range []string{"ConsAddress", "AccAddress", "ValAddress"} {
		I["("+sdkT+"."+n+").Bytes"] = func(e *Exec, fn *ssa.Function, a []Value) Value { return a[0] }
		I["("+sdkT+"."+n+").Empty"] = func(e *Exec, fn *ssa.Function, a []Value) Value {
			return BoolC(a[0].(SliceV).Len == 0)
		}
		I["("+sdkT+"."+n+").Equals"] = func(e *Exec, fn *ssa.Function, a []Value) Value {
			x := a[0].(SliceV)
			y, ok := a[1].(IfaceV)
			if !ok || y.T == nil {
				return BoolC(x.Len == 0)
			}
			ys, ok := y.V.(SliceV)
			if !ok {
				return tFalse
			}
			if x.Len == 0 && ys.Len == 0 {
				return tTrue
			}
			return bytesEq(sliceTerms(x), sliceTerms(ys))
		}
		I["("+sdkT+"."+n+").String"] = func(e *Exec, fn *ssa.Function, a []Value) Value {
			return addrString(sliceTerms(a[0]))
		}
	}
	const ethC = "github.com/ethereum/go-ethereum/common"
	padLeft := func(bs []*Term, n int) *ArrObj {
		arr := &ArrObj{E: make([]Value, n)}
		for i := range arr.E {
			arr.E[i] = BVU(8, 0)
		}
		if len(bs) > n {
			bs = bs[len(bs)-n:]
		}
		for i, b := range bs {
			arr.E[n-len(bs)+i] = b
		}
		return arr
	}
	I[ethC+".BytesToHash"] = func(e *Exec, fn *ssa.Function, a []Value) Value { return ArrayV{A: padLeft(sliceTerms(a[0]), 32)} }
	I[ethC+".BytesToAddress"] = func(e *Exec, fn *ssa.Function, a []Value) Value { return ArrayV{A: padLeft(sliceTerms(a[0]), 20)} }
	hexTo := func(n int) Intrinsic {
		return func(e *Exec, fn *ssa.Function, a []Value) Value {
			str := e.concreteStr(a[0], "hex string")
			str = strings.TrimPrefix(strings.TrimPrefix(str, "0x"), "0X")
			if len(str)%2 == 1 {
				str = "0" + str
			}
			raw, err := hex.DecodeString(str)
			if err != nil {
				raw = nil
			}
			bs := make([]*Term, len(raw))
			for i, b := range raw {
				bs[i] = BVU(8, uint64(b))
			}
			return ArrayV{A: padLeft(bs, n)}
		}
	}
	I[ethC+".HexToHash"] = hexTo(32)
	I[ethC+".HexToAddress"] = hexTo(20)
	arrBytes := func(e *Exec, fn *ssa.Function, a []Value) Value { return mkByteSlice(sliceTerms(a[0])) }
	I["("+ethC+".Hash).Bytes"] = arrBytes
	I["("+ethC+".Address).Bytes"] = arrBytes
	I["("+ethC+".Hash).Hex"] = func(e *Exec, fn *ssa.Function, a []Value) Value { return StrV{S: "<hash>"} }
	I["("+ethC+".Address).Hex"] = func(e *Exec, fn *ssa.Function, a []Value) Value { return StrV{S: "<address>"} }
	I[ethC+"/hexutil.Encode"] = func(e *Exec, fn *ssa.Function, a []Value) Value {
		h := intrinsics["encoding/hex.EncodeToString"](e, fn, a).(StrV)
		return StrFromBytes(append([]*Term{BVU(8, '0'), BVU(8, 'x')}, h.Bytes()...))
	}
	I["strconv.FormatUint"] = func(e *Exec, fn *ssa.Function, a []Value) Value {
		x := a[0].(*Term)
		if x.IsConst() {
			return StrV{S: strconv.FormatUint(x.U64(), e.concreteInt(a[1], "base"))}
		}
		return StrV{S: "<uint>"}
	}
	I["strconv.FormatInt"] = func(e *Exec, fn *ssa.Function, a []Value) Value {
		x := a[0].(*Term)
		if x.IsConst() {
			return StrV{S: strconv.FormatInt(x.I64(), e.concreteInt(a[1], "base"))}
		}
		return StrV{S: "<int>"}
	}
	I["strconv.Itoa"] = func(e *Exec, fn *ssa.Function, a []Value) Value {
		x := a[0].(*Term)
		if x.IsConst() {
			return StrV{S: strconv.Itoa(int(x.I64()))}
		}
		return StrV{S: "<int>"}
	}

	// ---------- Coins ----------
	I[sdkT+".NewCoin"] = func(e *Exec, fn *ssa.Function, a []Value) Value {
		d := a[0].(StrV)
		e.validateDenom(d)
		amt := bigOf(a[1])
		if amt.Nil {
			panic(&GoPanic{Msg: "NewCoin: amount is nil"})
		}
		if e.branch(ILt(amt.T, IntI(0))) {
			panic(&GoPanic{Msg: "NewCoin: negative coin amount"})
		}
		return &StructV{F: []Value{d, amt}}
	}
	I[sdkT+".NewCoins"] = func(e *Exec, fn *ssa.Function, a []Value) Value {
		return e.coinsToVal(e.newCoins(e.coinsOf(a[0])), true)
	}
	I["("+sdkT+".Coins).Add"] = func(e *Exec, fn *ssa.Function, a []Value) Value {
		return e.coinsToVal(e.coinsSafeAdd(e.coinsOf(a[0]), e.coinsOf(a[1])), true)
	}
	I["("+sdkT+".Coins).Sub"] = func(e *Exec, fn *ssa.Function, a []Value) Value {
		b := e.newCoins(e.coinsOf(a[1]))
		for i := range b {
			b[i].amt = INeg(b[i].amt)
		}
		diff := e.coinsSafeAdd(e.coinsOf(a[0]), b)
		for _, c := range diff {
			if e.branch(ILt(c.amt, IntI(0))) {
				panic(&GoPanic{Msg: "negative coin amount"})
			}
		}
		return e.coinsToVal(diff, true)
	}
	I["("+sdkT+".Coins).AmountOf"] = func(e *Exec, fn *ssa.Function, a []Value) Value {
		d := a[1].(StrV)
		e.validateDenom(d)
		return BigV{T: e.coinsAmountOf(e.coinsOf(a[0]), d)}
	}
	I["("+sdkT+".Coins).AmountOfNoDenomValidation"] = func(e *Exec, fn *ssa.Function, a []Value) Value {
		return BigV{T: e.coinsAmountOf(e.coinsOf(a[0]), a[1].(StrV))}
	}
	I["("+sdkT+".Coins).IsAllGTE"] = func(e *Exec, fn *ssa.Function, a []Value) Value {
		x, y := e.coinsOf(a[0]), e.coinsOf(a[1])
		if len(y) == 0 {
			return tTrue
		}
		if len(x) == 0 {
			return tFalse
		}
		var cs []*Term
		for _, cb := range y {
			e.validateDenom(cb.denom)
			cs = append(cs, ILe(cb.amt, e.coinsAmountOf(x, cb.denom)))
		}
		return And(cs...)
	}
	I["("+sdkT+".Coins).IsZero"] = func(e *Exec, fn *ssa.Function, a []Value) Value {
		var cs []*Term
		for _, c := range e.coinsOf(a[0]) {
			cs = append(cs, Eq(c.amt, IntI(0)))
		}
		return And(cs...)
	}
	I["("+sdkT+".Coins).Len"] = func(e *Exec, fn *ssa.Function, a []Value) Value { return BVI(64, int64(a[0].(SliceV).Len)) }
	I["("+sdkT+".Coins).Empty"] = func(e *Exec, fn *ssa.Function, a []Value) Value { return BoolC(a[0].(SliceV).Len == 0) }
	I["("+sdkT+".Coins).String"] = func(e *Exec, fn *ssa.Function, a []Value) Value { return StrV{S: "<coins>"} }
	I["("+sdkT+".Coin).String"] = func(e *Exec, fn *ssa.Function, a []Value) Value { return StrV{S: "<coin>"} }
	I["("+sdkT+".Coin).IsZero"] = func(e *Exec, fn *ssa.Function, a []Value) Value {
		return Eq(intOf(a[0].(*StructV).F[1]), IntI(0))
	}
}

func addrString(bs []*Term) StrV {
	// abstract injective text encoding of an address: "addr:" + hex
	const digits = "0123456789abcdef"
	out := []*Term{}
	for _, c := range []byte("addr:") {
		out = append(out, BVU(8, uint64(c)))
	}
	for _, b := range bs {
		if b.IsConst() {
			out = append(out, BVU(8, uint64(digits[b.U64()>>4])), BVU(8, uint64(digits[b.U64()&15])))
		} else {
			out = append(out, hexDigit(Extract(7, 4, b)), hexDigit(Extract(3, 0, b)))
		}
	}
	return StrFromBytes(out)
}

type coin struct {
	denom StrV
	amt   *Term
}

var reDenom = regexp.MustCompile(`^[a-zA-Z][a-zA-Z0-9/:._-]{2,127}$`)

func (e *Exec) validateDenom(d StrV) {
	if !d.IsConcrete() {
		panic(abortf("UNSUPPORTED symbolic coin denomination"))
	}
	if !reDenom.MatchString(d.S) {
		panic(&GoPanic{Msg: "invalid denom: " + d.S})
	}
}

func (e *Exec) coinsOf(v Value) []coin {
	s, ok := v.(SliceV)
	if !ok {
		panic(abortf("ENGINE coins expected, got %T", v))
	}
	out := make([]coin, s.Len)
	for i := range out {
		st := s.A.E[s.Off+i].(*StructV)
		d := st.F[0].(StrV)
		if !d.IsConcrete() {
			panic(abortf("UNSUPPORTED symbolic coin denomination"))
		}
		out[i] = coin{denom: d, amt: intOf(st.F[1])}
	}
	return out
}

func (e *Exec) coinsToVal(cs []coin, emptyNonNil bool) Value {
	arr := &ArrObj{E: make([]Value, len(cs))}
	for i, c := range cs {
		arr.E[i] = &StructV{F: []Value{c.denom, BigV{T: c.amt}}}
	}
	return SliceV{A: arr, Len: len(cs), Cap: len(cs)}
}

func coinsSorted(cs []coin) bool {
	for i := 1; i < len(cs); i++ {
		if cs[i-1].denom.S > cs[i].denom.S {
			return false
		}
	}
	return true
}

func (e *Exec) coinsSafeAdd(a, b []coin) []coin {
	if !coinsSorted(a) {
		panic(&GoPanic{Msg: "Coins (self) must be sorted"})
	}
	if !coinsSorted(b) {
		panic(&GoPanic{Msg: "Wrong argument: coins must be sorted"})
	}
	sums := map[string]*Term{}
	var order []string
	for _, c := range append(append([]coin{}, a...), b...) {
		if cur, ok := sums[c.denom.S]; ok {
			sums[c.denom.S] = IAdd(cur, c.amt)
		} else {
			sums[c.denom.S] = c.amt
			order = append(order, c.denom.S)
		}
	}
	sort.Strings(order)
	var out []coin
	for _, d := range order {
		if e.branch(Eq(sums[d], IntI(0))) {
			continue
		}
		out = append(out, coin{denom: StrV{S: d}, amt: sums[d]})
	}
	return out
}

// NewCoins(coins...): remove zero coins, sort, validate (positive, unique, valid denoms)
func (e *Exec) newCoins(in []coin) []coin {
	var nz []coin
	for _, c := range in {
		if e.branch(Eq(c.amt, IntI(0))) {
			continue
		}
		nz = append(nz, c)
	}
	sort.SliceStable(nz, func(i, j int) bool { return nz[i].denom.S < nz[j].denom.S })
	for i, c := range nz {
		e.validateDenom(c.denom)
		if i > 0 && nz[i-1].denom.S == c.denom.S {
			panic(&GoPanic{Msg: "invalid coin set: duplicate denomination " + c.denom.S})
		}
		if e.branch(ILe(c.amt, IntI(0))) {
			panic(&GoPanic{Msg: "invalid coin set: coin amount is not positive"})
		}
	}
	return nz
}

func (e *Exec) coinsAmountOf(cs []coin, d StrV) *Term {
	for _, c := range cs {
		if c.denom.S == d.S {
			return c.amt
		}
	}
	return IntI(0)
}

func (e *Exec) knownGlobal(name string, et types.Type) (Value, bool) {
	switch name {
	case collPkg + ".ErrNotFound":
		return errVal(errNotFound), true
	}
	const ecm = "github.com/ethereum/go-ethereum/common."
	if bv, ok := map[string]int64{ecm + "Big0": 0, ecm + "Big1": 1, ecm + "Big2": 2, ecm + "Big3": 3, ecm + "Big32": 32, ecm + "Big256": 256, ecm + "Big257": 257}[name]; ok {
		return PtrV{C: e.newCell(BigV{T: IntI(bv)})}, true
	}
	const be = "github.com/ethereum/go-ethereum/beacon/engine."
	if sv, ok := map[string]string{be + "VALID": "VALID", be + "INVALID": "INVALID", be + "SYNCING": "SYNCING", be + "ACCEPTED": "ACCEPTED"}[name]; ok {
		return StrV{S: sv}, true
	}
	const cc = "github.com/btcsuite/btcd/chaincfg."
	if nn, ok := map[string]string{cc + "MainNetParams": "mainnet", cc + "TestNet3Params": "testnet3", cc + "SigNetParams": "signet", cc + "RegressionNetParams": "regtest", cc + "SimNetParams": "simnet"}[name]; ok {
		v := e.zeroLenient(et)
		if sv, ok := v.(*StructV); ok {
			st := et.Underlying().(*types.Struct)
			for i := 0; i < st.NumFields(); i++ {
				if st.Field(i).Name() == "Name" {
					sv.F[i] = StrV{S: nn}
				}
			}
		}
		return v, true
	}
	if strings.HasPrefix(name, collPkg+".") || strings.HasPrefix(name, sdkT+".") && (strings.HasSuffix(name, "Key") || strings.HasSuffix(name, "Value")) {
		if _, isI := et.Underlying().(*types.Interface); isI {
			return IfaceV{T: types.NewPointer(errDynType), V: OpaqueV{Kind: "codec", ID: name}}, true
		}
		return OpaqueV{Kind: "codec", ID: name}, true
	}
	return nil, false
}

func (e *Exec) opaqueObjMethod(o *OpaqueObj, name string, args []Value) (Value, bool) {
	if ad, ok := o.Data.(*btcAddr); ok {
		return e.opaqueMethod(OpaqueV{Kind: "btcaddr", Data: ad}, name, args)
	}
	return nil, false
}

func (e *Exec) opaqueMethod(o OpaqueV, name string, args []Value) (Value, bool) {
	switch o.Kind {
	case "btcaddr":
		ad := o.Data.(*btcAddr)
		switch name {
		case "IsForNet":
			return BoolC(ad.forNet), true
		case "EncodeAddress", "String":
			return StrV{S: "<btc address>"}, true
		case "ScriptAddress":
			return mkByteSlice(ad.prog), true
		}
	case "privkey":
		if name == "PubKey" {
			return IfaceV{T: types.NewPointer(errDynType), V: OpaqueV{Kind: "pubkey"}}, true
		}
	case "pubkey":
		switch name {
		case "Bytes":
			return mkByteSlice(mkToken(33, 0x02, 0x50, 1)), true
		case "Address":
			return mkByteSlice(mkToken(20, 0xAD, 0x50, 1)), true
		}
	case "account":
		switch name {
		case "GetPubKey":
			return IfaceV{T: types.NewPointer(errDynType), V: OpaqueV{Kind: "pubkey"}}, true
		case "GetSequence":
			return BVU(64, 3), true
		case "GetAccountNumber":
			return BVU(64, 7), true
		}
	case "txconfig":
		switch name {
		case "NewTxBuilder":
			return IfaceV{T: types.NewPointer(errDynType), V: OpaqueV{Kind: "txbuilder", Data: &txBuilderObj{}}}, true
		case "SignModeHandler":
			return PtrV{Opq: &OpaqueObj{Kind: "signmodehandler"}}, true
		case "TxEncoder":
			return FuncV{Go: func(e *Exec, args []Value) Value {
				// the encoded block transaction: an opaque, fixed byte string
				return TupleV{V: []Value{mkByteSlice(StrV{S: "encoded-block-tx"}.Bytes()), IfaceV{}}}
			}}, true
		}
	case "txbuilder":
		tb := o.Data.(*txBuilderObj)
		switch name {
		case "SetMsgs":
			if s, ok := args[0].(SliceV); ok {
				tb.msgs = s.Len
			}
			return IfaceV{}, true
		case "SetSignatures":
			return IfaceV{}, true
		case "SetGasLimit", "SetTimeoutHeight", "SetMemo", "SetFeeAmount":
			return nil, true
		case "GetTx":
			return IfaceV{T: types.NewPointer(errDynType), V: OpaqueV{Kind: "builttx"}}, true
		}
	case "eventmanager", "logger":
		switch name {
		case "With":
			return IfaceV{T: types.NewPointer(errDynType), V: o}, true
		}
		return nil, true
	case "gasmeter":
		switch name {
		case "GasConsumed", "GasConsumedToLimit":
			return e.store_().Gas, true
		}
	case "addrcodec":
		switch name {
		case "BytesToString":
			bs := sliceTerms(args[0])
			if len(bs) == 0 {
				return TupleV{V: []Value{StrV{}, IfaceV{}}}, true
			}
			return TupleV{V: []Value{addrString(bs), IfaceV{}}}, true
		case "StringToBytes":
			s := args[0].(StrV)
			bs, ok := e.addrParse(s)
			if !ok {
				return TupleV{V: []Value{SliceV{}, newErr("decoding bech32 failed")}}, true
			}
			return TupleV{V: []Value{mkByteSlice(bs), IfaceV{}}}, true
		}
	}
	return nil, false
}

// addrParse inverts addrString; fails (error) when the text is not of that form.
func (e *Exec) addrParse(s StrV) ([]*Term, bool) {
	bs := s.Bytes()
	pre := []byte("addr:")
	if len(bs) < len(pre)+2 || (len(bs)-len(pre))%2 != 0 {
		return nil, false
	}
	if !e.branch(bytesEq(bs[:len(pre)], StrV{S: "addr:"}.Bytes())) {
		return nil, false
	}
	hexs := bs[len(pre):]
	out := make([]*Term, len(hexs)/2)
	valid := tTrue
	nib := func(c *Term) (*Term, *Term) {
		isDigit := And(BVUle(BVU(8, '0'), c), BVUle(c, BVU(8, '9')))
		isAF := And(BVUle(BVU(8, 'a'), c), BVUle(c, BVU(8, 'f')))
		v := Ite(isDigit, BVSub(c, BVU(8, '0')), BVSub(c, BVU(8, 'a'-10)))
		return Extract(3, 0, v), Or(isDigit, isAF)
	}
	for i := range out {
		h, ok1 := nib(hexs[2*i])
		l, ok2 := nib(hexs[2*i+1])
		valid = And(valid, ok1, ok2)
		out[i] = Concat(h, l)
	}
	if !e.branch(valid) {
		return nil, false
	}
	return out, true
}

var _ = fmt.Sprint
var _ = big.NewInt

type CtxV struct {
	F map[string]Value
}

type txBuilderObj struct{ msgs int }
