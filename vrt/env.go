package vrt

// Native environment for keeper harnesses: a real in-memory IAVL multistore and an
// sdk.Context on top of it, built exactly like /repo/testutil/keeper does (which
// in-package harnesses cannot import because of the import cycle). Under the symbolic
// engine these constructors are intercepted: the store becomes a finite map per
// collection, the context a record of symbolic fields.

import (
	"cosmossdk.io/core/address"
	corestore "cosmossdk.io/core/store"
	"cosmossdk.io/log"
	"cosmossdk.io/store"
	"cosmossdk.io/store/metrics"
	storetypes "cosmossdk.io/store/types"
	cmtproto "github.com/cometbft/cometbft/proto/tendermint/types"
	dbm "github.com/cosmos/cosmos-db"
	"github.com/cosmos/cosmos-sdk/client"
	"github.com/cosmos/cosmos-sdk/codec"
	addresscodec "github.com/cosmos/cosmos-sdk/codec/address"
	codectypes "github.com/cosmos/cosmos-sdk/codec/types"
	cryptocodec "github.com/cosmos/cosmos-sdk/crypto/codec"
	"github.com/cosmos/cosmos-sdk/crypto/keys/secp256k1"
	cryptotypes "github.com/cosmos/cosmos-sdk/crypto/types"
	"github.com/cosmos/cosmos-sdk/runtime"
	sdk "github.com/cosmos/cosmos-sdk/types"
	authtx "github.com/cosmos/cosmos-sdk/x/auth/tx"
	authtypes "github.com/cosmos/cosmos-sdk/x/auth/types"
)

type nativeEnv struct {
	db     dbm.DB
	ms     storetypes.CommitMultiStore
	keys   map[string]*storetypes.KVStoreKey
	loaded bool
	cdc    codec.BinaryCodec
}

func (h *H) envInit() *nativeEnv {
	if h.env == nil {
		db := dbm.NewMemDB()
		h.env = &nativeEnv{db: db, ms: store.NewCommitMultiStore(db, log.NewNopLogger(), metrics.NewNoOpMetrics()), keys: map[string]*storetypes.KVStoreKey{}}
		h.env.cdc = codec.NewProtoCodec(codectypes.NewInterfaceRegistry())
	}
	return h.env
}

// StoreService mounts a KV store; call for every keeper before Ctx().
func (h *H) StoreService(name string) corestore.KVStoreService {
	env := h.envInit()
	key, ok := env.keys[name]
	if !ok && env.loaded {
		h.tb.Fatalf("vrt: StoreService(%s) after Ctx()", name)
	}
	if !ok {
		key = storetypes.NewKVStoreKey(name)
		env.keys[name] = key
		env.ms.MountStoreWithDB(key, storetypes.StoreTypeIAVL, env.db)
	}
	return runtime.NewKVStoreService(key)
}

// Ctx returns a fresh context over the mounted stores (height 0, zero time, empty chain id).
func (h *H) Ctx() sdk.Context {
	env := h.envInit()
	if !env.loaded {
		if err := env.ms.LoadLatestVersion(); err != nil {
			h.tb.Fatalf("vrt: load stores: %v", err)
		}
		env.loaded = true
	}
	return sdk.NewContext(env.ms, cmtproto.Header{}, false, log.NewNopLogger())
}

func (h *H) Codec() codec.BinaryCodec { return h.envInit().cdc }

// AddressCodec is the account address codec of the chain (bech32 natively; an abstract
// injective text encoding under the engine).
func (h *H) AddressCodec() address.Codec {
	return addresscodec.NewBech32Codec(sdk.GetConfig().GetBech32AccountAddrPrefix())
}

func (h *H) Logger() log.Logger { return log.NewNopLogger() }

// GasUsed reports the gas consumed on ctx so far (real gas meter natively, flat-cost ghost
// counter under the engine).
func (h *H) GasUsed(ctx sdk.Context) uint64 { return ctx.GasMeter().GasConsumed() }

// TryTx runs f the way baseapp runs a transaction: on a cache-wrapped context whose writes
// are committed only when f succeeds.
func (h *H) TryTx(ctx sdk.Context, f func(sdk.Context) error) error {
	cctx, write := ctx.CacheContext()
	err := f(cctx)
	if err == nil {
		write()
	}
	return err
}

// DryRun runs f on a cache-wrapped context and discards its writes.
func (h *H) DryRun(ctx sdk.Context, f func(sdk.Context) error) error {
	cctx, _ := ctx.CacheContext()
	return f(cctx)
}

// ProposerEnv is the proposer-side signing environment of PrepareProposal: the validator's
// key, its account and the transaction config. Natively these are the real SDK objects
// (secp256k1 key, BaseAccount, auth tx config with direct sign mode); under the engine they
// are opaque stubs - transaction signing and encoding are not the subject of any property.
func (h *H) ProposerEnv() (cryptotypes.PrivKey, sdk.AccountI, client.TxConfig) {
	seed := make([]byte, 32)
	seed[0], seed[31] = 0x42, 0x01
	priv := &secp256k1.PrivKey{Key: seed}
	reg := codectypes.NewInterfaceRegistry()
	cryptocodec.RegisterInterfaces(reg)
	cdc := codec.NewProtoCodec(reg)
	acc := authtypes.NewBaseAccount(sdk.AccAddress(priv.PubKey().Address()), priv.PubKey(), 7, 3)
	return priv, acc, authtx.NewTxConfig(cdc, authtx.DefaultSignModes)
}
