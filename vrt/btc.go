package vrt

// Constructive generators for Bitcoin values: transactions are produced by btcd's own
// serialiser and addresses by btcutil's own encoders, so the bytes<->structure relation of
// a replayed model is the real one. Under the engine BtcTx builds the same no-witness
// serialisation byte for byte (the format is fixed-layout for one input) and remembers
// the output list for the parser stub; BtcAddr returns an opaque token string the
// DecodeAddress stub maps back to (kind, program, network).

import (
	"bytes"

	"github.com/btcsuite/btcd/btcec/v2/schnorr"
	"github.com/btcsuite/btcd/btcutil"
	"github.com/btcsuite/btcd/chaincfg"
	"github.com/btcsuite/btcd/chaincfg/chainhash"
	"github.com/btcsuite/btcd/wire"
)

// BtcTx returns the no-witness serialisation of a version-2 transaction with one input
// (null previous output, empty signature script, sequence 0xffffffff) and the given outputs.
func (h *H) BtcTx(values []int64, scripts [][]byte) []byte {
	tx := wire.NewMsgTx(2)
	tx.AddTxIn(wire.NewTxIn(wire.NewOutPoint(&chainhash.Hash{}, 0), nil, nil))
	for i := range values {
		tx.AddTxOut(wire.NewTxOut(values[i], scripts[i]))
	}
	var buf bytes.Buffer
	if err := tx.SerializeNoWitness(&buf); err != nil {
		h.tb.Fatalf("vrt: serialize tx: %v", err)
	}
	return buf.Bytes()
}

const (
	AddrP2PKH = iota
	AddrP2SH
	AddrP2WPKH
	AddrP2WSH
	AddrP2TR
	AddrP2PK
	AddrGarbage
	AddrP2PKUncompressed // hex of the 65-byte 0x04 serialisation
	AddrP2PKHybrid       // hex of the 65-byte 0x06/0x07 serialisation
)

// BtcAddr returns the address string of the given kind over program (20 or 32 bytes; P2PK
// uses signer 1's key) on regtest, or on mainnet when forNet is false.
func (h *H) BtcAddr(kind int, program []byte, forNet bool) string {
	net := &chaincfg.RegressionNetParams
	if !forNet {
		net = &chaincfg.MainNetParams
	}
	var a btcutil.Address
	var err error
	switch kind {
	case AddrP2PKH:
		a, err = btcutil.NewAddressPubKeyHash(program, net)
	case AddrP2SH:
		a, err = btcutil.NewAddressScriptHashFromHash(program, net)
	case AddrP2WPKH:
		a, err = btcutil.NewAddressWitnessPubKeyHash(program, net)
	case AddrP2WSH:
		a, err = btcutil.NewAddressWitnessScriptHash(program, net)
	case AddrP2TR:
		a, err = btcutil.NewAddressTaproot(program, net)
	case AddrP2PK:
		a, err = btcutil.NewAddressPubKey(h.TxKey(1), net)
	case AddrP2PKUncompressed, AddrP2PKHybrid:
		_, pub := ecdsaBtcec(1)
		raw := pub.SerializeUncompressed()
		if kind == AddrP2PKHybrid {
			raw[0] = 0x06 | (raw[64] & 1)
		}
		a, err = btcutil.NewAddressPubKey(raw, net)
	default:
		return "this-is-not-a-bitcoin-address"
	}
	if err != nil {
		h.tb.Fatalf("vrt: address: %v", err)
	}
	return a.EncodeAddress()
}

// SchnorrKey returns the 32-byte x-only public key of harness signer i.
func (h *H) SchnorrKey(i int) []byte {
	_, pub := ecdsaBtcec(i)
	return schnorr.SerializePubKey(pub)
}
