package vrt

// Constructive generators for cryptographic values (replayability rule): anything that
// must verify is produced through the real primitive, so a solver model transfers to the
// native build unchanged and a forged signature cannot be produced at all.
// Under the engine: BLSKey(i) is an opaque distinct 96-byte token; AggSig(mask, msg) an
// opaque 48-byte token for which AggregateVerify(keys, m, sig) answers
// "keys is exactly the multiset {BLSKey(i) | mask[i]} and m == msg" (BLS correctness +
// unforgeability as the stated contract).

import (
	"crypto/sha256"

	goatcrypto "github.com/goatnetwork/goat/pkg/crypto"
	blst "github.com/supranational/blst/bindings/go"
)

func blsSecret(i int) *goatcrypto.PrivateKey {
	seed := sha256.Sum256([]byte{'v', 'r', 't', byte(i), byte(i >> 8)})
	return blst.KeyGenV3(seed[:])
}

// BLSKey returns the compressed public vote key of harness signer i.
func (h *H) BLSKey(i int) []byte {
	return new(goatcrypto.PublicKey).From(blsSecret(i)).Compress()
}

// AggSig returns the aggregate signature over msg of the signers i with mask[i] set.
func (h *H) AggSig(mask []bool, msg []byte) []byte {
	var sigs [][]byte
	for i, m := range mask {
		if m {
			sigs = append(sigs, goatcrypto.Sign(blsSecret(i), msg))
		}
	}
	if len(sigs) == 0 {
		return make([]byte, goatcrypto.SignatureLength)
	}
	agg, err := goatcrypto.AggregateSignatures(sigs)
	if err != nil {
		h.tb.Fatalf("vrt: aggregate: %v", err)
	}
	return agg
}
