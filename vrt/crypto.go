package vrt

// Constructive generators for cryptographic values (replayability rule): anything that
// must verify is produced through the real primitive, so a solver model transfers to the
// native build unchanged and a forged signature cannot be produced at all.
// Under the engine: BLSKey(i) is an opaque distinct 96-byte token; AggSig(mask, msg) an
// opaque 48-byte token for which AggregateVerify(keys, m, sig) answers
// "keys is exactly the multiset {BLSKey(i) | mask[i]} and m == msg" (BLS correctness +
// unforgeability as the stated contract).

import (
	"crypto/ecdsa"
	"crypto/sha256"

	"github.com/btcsuite/btcd/btcec/v2"
	ethcrypto "github.com/ethereum/go-ethereum/crypto"

	goatcrypto "github.com/goatnetwork/goat/pkg/crypto"
	blst "github.com/supranational/blst/bindings/go"
)

func blsSecret(i int) *goatcrypto.PrivateKey {
	seed := sha256.Sum256([]byte{'v', 'r', 't', byte(i), byte(i >> 8)})
	return blst.KeyGenV3(seed[:])
}

// BLSKey returns the compressed public vote key of harness signer i.
func (h *H) BLSKey(i int) []byte {
	return new(goatcrypto.PublicKey).From(blsSecret(i)).Compress()
}

// AggSig returns the aggregate signature over msg of the signers i with mask[i] set.
func (h *H) AggSig(mask []bool, msg []byte) []byte {
	var sigs [][]byte
	for i, m := range mask {
		if m {
			sigs = append(sigs, goatcrypto.Sign(blsSecret(i), msg))
		}
	}
	if len(sigs) == 0 {
		return make([]byte, goatcrypto.SignatureLength)
	}
	agg, err := goatcrypto.AggregateSignatures(sigs)
	if err != nil {
		h.tb.Fatalf("vrt: aggregate: %v", err)
	}
	return agg
}

// BLSSig returns signer i's individual BLS signature over msg (proof of possession style).
func (h *H) BLSSig(i int, msg []byte) []byte { return goatcrypto.Sign(blsSecret(i), msg) }

func ecdsaKey(i int) *ecdsa.PrivateKey {
	seed := sha256.Sum256([]byte{'v', 'r', 't', 'e', byte(i), byte(i >> 8)})
	k, err := ethcrypto.ToECDSA(seed[:])
	if err != nil {
		panic(err)
	}
	return k
}

// TxKey returns the compressed secp256k1 public key (33 bytes) of harness signer i.
func (h *H) TxKey(i int) []byte { return ethcrypto.CompressPubkey(&ecdsaKey(i).PublicKey) }

// TxSig returns signer i's 64-byte [R||S] ECDSA signature over the 32-byte digest.
func (h *H) TxSig(i int, digest []byte) []byte {
	if len(digest) != 32 {
		return make([]byte, 64)
	}
	sig, err := ethcrypto.Sign(digest, ecdsaKey(i))
	if err != nil {
		h.tb.Fatalf("vrt: ecdsa sign: %v", err)
	}
	return sig[:64]
}

func ecdsaBtcec(i int) (*btcec.PrivateKey, *btcec.PublicKey) {
	seed := sha256.Sum256([]byte{'v', 'r', 't', 'e', byte(i), byte(i >> 8)})
	return btcec.PrivKeyFromBytes(seed[:])
}
