// Package vrt is the harness runtime. Harness functions (VH_*) take a *vrt.H and draw
// their inputs from it. Under the symbolic engine (gosym) every method of H is
// intercepted and never executed; this file is the NATIVE implementation used to replay
// a solver model against the real build: inputs are read from a model file, Assert
// becomes a test failure, Note prints the value the real code computed.
package vrt

import (
	"encoding/hex"
	"encoding/json"
	"fmt"
	"math/big"
	"os"
	"strings"

	"cosmossdk.io/math"
)

// TB is the subset of testing.TB used here (keeps "testing" out of non-test builds).
type TB interface {
	Logf(format string, args ...any)
	Fatalf(format string, args ...any)
	Errorf(format string, args ...any)
	FailNow()
}

type input struct {
	Kind string `json:"kind"`
	Val  string `json:"val"`
}

type Model struct {
	Harness string           `json:"harness"`
	Inputs  map[string]input `json:"inputs"`
}

type H struct {
	tb     TB
	model  Model
	failed []string
	env    *nativeEnv
	Out    []string
	Quiet  bool // buffer output (used when a replay is repeated to resample map order)
}

// Failed reports whether an assertion failed so far.
func (h *H) Failed() bool { return len(h.failed) > 0 }

// Flush prints buffered output.
func (h *H) Flush() {
	if h.Quiet {
		for _, s := range h.Out {
			fmt.Println(s)
		}
		h.Quiet = false
	}
}

func NewReplay(tb TB, modelPath string) *H {
	h := &H{tb: tb}
	raw, err := os.ReadFile(modelPath)
	if err != nil {
		tb.Fatalf("vrt: cannot read model: %v", err)
	}
	if err := json.Unmarshal(raw, &h.model); err != nil {
		tb.Fatalf("vrt: bad model: %v", err)
	}
	return h
}

// HarnessName is the harness the model was produced for.
func (h *H) HarnessName() string { return h.model.Harness }

func (h *H) emit(format string, a ...any) {
	s := fmt.Sprintf(format, a...)
	h.Out = append(h.Out, s)
	if !h.Quiet {
		fmt.Println(s)
	}
}

// Done reports the outcome; call at the end of the replay test.
func (h *H) Done() {
	if len(h.failed) > 0 {
		h.emit("VRT-RESULT violated=%d", len(h.failed))
		h.tb.Errorf("vrt: %d assertion(s) violated: %s", len(h.failed), strings.Join(h.failed, "; "))
		return
	}
	h.emit("VRT-RESULT ok")
}

func (h *H) lookup(name, kind string) (string, bool) {
	in, ok := h.model.Inputs[name]
	if !ok {
		return "", false
	}
	return in.Val, true
}

func (h *H) bigOf(name, kind string) *big.Int {
	s, ok := h.lookup(name, kind)
	if !ok {
		return new(big.Int)
	}
	v, ok := new(big.Int).SetString(s, 10)
	if !ok {
		h.tb.Fatalf("vrt: bad integer for %s: %q", name, s)
	}
	return v
}

func (h *H) U64(name string) uint64 { return h.bigOf(name, "u64").Uint64() }
func (h *H) U32(name string) uint32 { return uint32(h.bigOf(name, "u32").Uint64()) }
func (h *H) U16(name string) uint16 { return uint16(h.bigOf(name, "u16").Uint64()) }
func (h *H) U8(name string) uint8   { return uint8(h.bigOf(name, "u8").Uint64()) }
func (h *H) I64(name string) int64  { return h.bigOf(name, "i64").Int64() }
func (h *H) I32(name string) int32  { return int32(h.bigOf(name, "i32").Int64()) }
func (h *H) Bool(name string) bool  { return h.bigOf(name, "bool").Sign() != 0 }

// Choose returns a value in [lo, hi]; the engine forks over every value (stated bound).
func (h *H) Choose(name string, lo, hi int) int {
	v := int(h.bigOf(name, "choose").Int64())
	if _, ok := h.lookup(name, "choose"); !ok {
		return lo
	}
	return v
}

// Bytes returns n arbitrary bytes.
func (h *H) Bytes(name string, n int) []byte {
	s, ok := h.lookup(name, "bytes")
	out := make([]byte, n)
	if !ok {
		return out
	}
	raw, err := hex.DecodeString(s)
	if err != nil {
		h.tb.Fatalf("vrt: bad hex for %s", name)
	}
	copy(out, raw)
	return out
}

// Str returns an arbitrary string of n bytes.
func (h *H) Str(name string, n int) string { return string(h.Bytes(name, n)) }

// Int returns an arbitrary math.Int with lo <= v <= hi given as decimal strings
// ("" = unbounded on that side).
func (h *H) Int(name string, lo, hi string) math.Int {
	return math.NewIntFromBigInt(h.bigOf(name, "int"))
}

// Big returns an arbitrary *big.Int in [lo, hi].
func (h *H) Big(name string, lo, hi string) *big.Int { return h.bigOf(name, "int") }

// Assume restricts the inputs. Natively a failed assumption means the model does not fit
// the harness (engine/stub mismatch); it is reported, never silently ignored.
func (h *H) Assume(c bool) {
	if !c {
		h.emit("VRT-ASSUME-FAIL")
		h.tb.Fatalf("vrt: assumption does not hold for the replayed model")
	}
}

// Assert states the property. label identifies the obligation.
func (h *H) Assert(c bool, label string) {
	if !c {
		h.emit("VRT-ASSERT-FAIL %s", label)
		h.failed = append(h.failed, label)
	}
}

// Reach is the vacuity witness: the engine must find inputs reaching it.
func (h *H) Reach(label string) { h.emit("VRT-REACH %s", label) }

// Panics runs f and reports whether it panicked.
func (h *H) Panics(f func()) (p bool) {
	defer func() {
		if r := recover(); r != nil {
			h.emit("VRT-PANIC %v", r)
			p = true
		}
	}()
	f()
	return false
}

// Name builds deterministic input names: Name("x", 3) == "x_3".
func (h *H) Name(parts ...any) string {
	var sb strings.Builder
	for i, p := range parts {
		if i > 0 {
			sb.WriteByte('_')
		}
		fmt.Fprint(&sb, p)
	}
	return sb.String()
}

// Note records a value computed by the real code so the replay can be compared with the
// value the encoding predicted (translation validation of the engine).
func (h *H) NoteU64(label string, v uint64)   { h.emit("VRT-NOTE %s=%d", label, v) }
func (h *H) NoteBool(label string, v bool)    { h.emit("VRT-NOTE %s=%v", label, b2i(v)) }
func (h *H) NoteBytes(label string, v []byte) { h.emit("VRT-NOTE %s=%s", label, hex.EncodeToString(v)) }
func (h *H) NoteInt(label string, v math.Int) {
	if v.IsNil() {
		h.emit("VRT-NOTE %s=nil", label)
		return
	}
	h.emit("VRT-NOTE %s=%s", label, v.String())
}

func b2i(b bool) int {
	if b {
		return 1
	}
	return 0
}

// Symbolic reports whether the harness runs under the symbolic engine.
func (h *H) Symbolic() bool { return false }

// Thorough reports the tier (bounds are chosen by the harness from it).
func (h *H) Thorough() bool { return os.Getenv("VERIF_TIER") == "thorough" }


// Branch-free helpers: under the engine these build if-then-else terms instead of
// forking the path (a Go `if`, `&&` or `||` on symbolic data forks).
func (h *H) B2I(b bool) int {
	if b {
		return 1
	}
	return 0
}
func (h *H) Both(a, b bool) bool   { return a && b }
func (h *H) Either(a, b bool) bool { return a || b }
func (h *H) Implies(a, b bool) bool { return !a || b }
func (h *H) PickU64(c bool, a, b uint64) uint64 {
	if c {
		return a
	}
	return b
}
func (h *H) PickInt(c bool, a, b int) int {
	if c {
		return a
	}
	return b
}

// PickBytes returns a when c, else b (same length required).
func (h *H) PickBytes(c bool, a, b []byte) []byte {
	if len(a) != len(b) {
		h.tb.Fatalf("vrt: PickBytes length mismatch")
	}
	if c {
		return a
	}
	return b
}

// Log prints a diagnostic natively (ignored by the engine and by the replay comparison).
func (h *H) Log(label string, v any) { fmt.Printf("VRT-LOG %s=%v\n", label, v) }

// Region names a set of inputs (a predicate over the harness inputs) that a committed
// known-findings entry refers to by id. No effect natively.
func (h *H) Region(id string, c bool) {}

// NoRace states that the concurrent tasks run so far had no data race. Under the engine the
// recorded read/write sets of the tasks are compared; natively the replay runs under the Go
// race detector (-race), which fails the test when it observes the race.
func (h *H) NoRace(label string) {}
